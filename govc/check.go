package main

import (
	"encoding/json"
	"runtime/debug"
	"flag"
	"fmt"
	"os"
	"path/filepath"
	"sort"
	"strconv"
	"strings"
	"sync"
	"time"

	"golang.org/x/tools/go/ssa"
)

type ModCfg struct {
	Corpus string `json:"corpus,omitempty"` // stage G: a manifest the REAL generator is run on; its output joins the module as a virtual package (overlay)
	Name string   `json:"name"`
	Dir  string   `json:"dir"`
	Pkgs []string `json:"pkgs"`
	Tier string   `json:"tier,omitempty"` // "" = both tiers, "thorough" = thorough tier only
}

type FucCfg struct {
	Func     string   `json:"func"`
	Safety   bool     `json:"safety,omitempty"`
	Only     []string `json:"only,omitempty"`     // module names; empty = every module
	Optional bool     `json:"optional,omitempty"` // absence is not an anchor failure (e.g. functions that exist in one module only)
	Spec     map[string]string `json:"spec,omitempty"`      // specialise interface-typed parameters to a dynamic type: {"reader": "*restlicodec.ror2Reader"}
	SkipKinds []string `json:"skip_kinds,omitempty"`        // safety kinds not claimed for this function (each is listed as an assumption)
	Exclude  []string `json:"exclude,omitempty"`            // with a '*' pattern: function names (substring) to leave out
}

type PropConfig struct {
	ID          string   `json:"id"`
	Modules     []ModCfg `json:"modules"`
	Fucs        []FucCfg `json:"fucs"`
	NotCovered  []string `json:"not_covered"`
	Assumptions []string `json:"assumptions"`
	Lean        []string `json:"lean,omitempty"`
	Bounded     []string `json:"bounded,omitempty"`
	Selftest    []string `json:"selftest,omitempty"`
}

type FuncRun struct {
	Mod     *Module
	Fn      *ssa.Function
	Name    string // mod/fname
	Cfg     FucCfg
	Enc     *Enc
	EncErr  string
	Kept    []string
	Rounds  int
	Covers  []*Obligation
	EncTime time.Duration
	Phase   [3]time.Duration // houdini, covers+obligations
	NCand   int
}

type Baseline struct {
	Obligations map[string]BaseOb `json:"obligations"`
	Covers      map[string]string `json:"covers"` // name -> "live" | "dead"
	Fucs        []string          `json:"fucs"`
}

type BaseOb struct {
	Backend string `json:"backend"`
	Ms      int64  `json:"ms"`
}

type Failure struct {
	Ob       *Obligation
	Run      *FuncRun
	Name     string
	Reason   string // sat | unknown | timeout | anchor-missing | engine-error | cover-dead | solver-disagree
	Replay   string
	Replayed bool
	Known    *Finding
	Detail   string
}

var solverSem = make(chan struct{}, 14)

func cmdCheck(args []string) int {
	fs := flag.NewFlagSet("check", flag.ExitOnError)
	prop := fs.String("prop", "", "property id")
	tier := fs.String("tier", "", "quick|thorough (default $VERIF_TIER or quick)")
	update := fs.Bool("update-baseline", false, "rewrite /verif/baseline/<id>.json from this run")
	verbose := fs.Bool("v", false, "print every obligation")
	only := fs.String("func", "", "restrict to functions whose name contains this (diagnostic; no evidence/baseline)")
	dump := fs.String("dump", "", "dump SMT of obligations whose name contains this to /tmp/govc-dump-*.smt2")
	fs.Parse(args)
	if *tier == "" {
		*tier = os.Getenv("VERIF_TIER")
	}
	if *tier == "" {
		*tier = "quick"
	}
	seed := 0
	if s := os.Getenv("VERIF_SEED"); s != "" {
		seed, _ = strconv.Atoi(s)
	}
	solverSeed = seed
	t0 := time.Now()
	cfgPath := filepath.Join(verifRoot, "props", *prop+".json")
	raw, err := os.ReadFile(cfgPath)
	if err != nil {
		fmt.Fprintf(os.Stderr, "no property config %s: %v\n", cfgPath, err)
		return 2
	}
	var cfg PropConfig
	if err := json.Unmarshal(raw, &cfg); err != nil {
		fmt.Fprintf(os.Stderr, "%s: %v\n", cfgPath, err)
		return 2
	}
	// selftest mode: the tree under test is a scratch copy of /repo (GOVC_REPO) carrying a corpus patch; nothing is
	// written under /verif (no evidence, replays or baselines)
	selftest := os.Getenv("GOVC_SELFTEST") != ""
	if alt := os.Getenv("GOVC_REPO"); alt != "" {
		for i := range cfg.Modules {
			if cfg.Modules[i].Dir == "/repo" || strings.HasPrefix(cfg.Modules[i].Dir, "/repo/") {
				cfg.Modules[i].Dir = alt + strings.TrimPrefix(cfg.Modules[i].Dir, "/repo")
			}
		}
	}
	timeout := 10 * time.Second
	retry := 60 * time.Second
	if *tier == "thorough" {
		timeout = 60 * time.Second
		retry = 120 * time.Second
	}

	var runs []*FuncRun
	var failures []*Failure
	var loadS float64
	var contractFiles []string
	var axioms []string
	for _, mc := range cfg.Modules {
		if mc.Tier == "thorough" && *tier != "thorough" {
			continue
		}
		m, err := loadModule(mc.Name, mc.Dir, mc.Pkgs, mc.Corpus)
		if err != nil {
			// the tree does not type-check with hooks on: nothing can be said, and saying "ok" would be wrong
			fmt.Fprintf(os.Stderr, "load %s: %v\n", mc.Dir, err)
			failures = append(failures, &Failure{Name: mc.Name + "/#load", Reason: "engine-error", Detail: err.Error()})
			continue
		}
		loadS += m.LoadTime.Seconds()
		contractFiles = append(contractFiles, m.DB.files...)
		for _, a := range m.DB.axioms {
			axioms = append(axioms, a.Src)
		}
		seen := map[*ssa.Function]bool{}
		for _, fc := range cfg.Fucs {
			if len(fc.Only) > 0 && !contains(fc.Only, mc.Name) {
				continue
			}
			fns := m.resolve(fc.Func)
			if len(fns) == 0 {
				if !fc.Optional {
					failures = append(failures, &Failure{Name: mc.Name + "/" + fc.Func + "#contract-anchor-missing", Reason: "anchor-missing",
						Detail: "function under contract not found in " + mc.Dir})
				}
				continue
			}
			for _, fn := range fns {
				if seen[fn] || fn.Blocks == nil {
					continue
				}
				if *only != "" && !strings.Contains(fname(fn), *only) {
					continue
				}
				skip := false
				for _, x := range fc.Exclude {
					if strings.Contains(fname(fn), x) {
						skip = true
					}
				}
				if skip {
					continue
				}
				name := mc.Name + "/" + fname(fn)
				if len(fc.Spec) > 0 {
					name += "[" + specSuffix(fn, fc.Spec) + "]"
				} else {
					seen[fn] = true
				}
				runs = append(runs, &FuncRun{Mod: m, Fn: fn, Name: name, Cfg: fc})
			}
		}
		// a contract block naming a function that does not exist is an anchor failure too (only for blocks that
		// carry clauses owned by this property)
		for name, c := range m.DB.byFunc {
			base := name
			if i := strings.LastIndex(base, "["); i > 0 && strings.Contains(base[i:], "=") {
				base = base[:i]
			}
			if c.Trusted || m.Funcs[base] != nil {
				continue
			}
			if strings.HasPrefix(c.File, verifRoot) {
				continue
			}
			if contractMentions(c, cfg.ID) {
				failures = append(failures, &Failure{Name: mc.Name + "/" + name + "#contract-anchor-missing", Reason: "anchor-missing",
					Detail: fmt.Sprintf("%s:%d names a function that no longer exists", c.File, c.Line)})
			}
		}
	}

	// encode sequentially (cheap, shares tables), solve in parallel
	for _, r := range runs {
		te := time.Now()
		r.Enc = newEnc(r.Mod.Prog, r.Fn, r.Mod.DB)
		r.Enc.mod = r.Mod.Name
		r.Enc.module = r.Mod
		r.Enc.prop = cfg.ID
		r.Enc.safety = r.Cfg.Safety
		r.Enc.spec = r.Cfg.Spec
		if len(r.Cfg.Spec) > 0 {
			r.Enc.specName = fname(r.Fn) + "[" + specSuffix(r.Fn, r.Cfg.Spec) + "]"
			if sc := r.Mod.DB.byFunc[r.Enc.specName]; sc != nil {
				r.Enc.con = sc
			}
		}
		r.Enc.skipKinds = r.Cfg.SkipKinds
		func() {
			defer func() {
				if x := recover(); x != nil {
					r.EncErr = fmt.Sprint(x)
					if os.Getenv("GOVC_DEBUG") != "" {
						fmt.Println(string(debug.Stack()))
					}
				}
			}()
			r.Enc.run()
		}()
		r.EncTime = time.Since(te)
	}
	var wg sync.WaitGroup
	for _, r := range runs {
		if r.EncErr != "" {
			continue
		}
		wg.Add(1)
		go func(r *FuncRun) {
			defer wg.Done()
			solveFunc(r, timeout, retry, *tier == "thorough")
		}(r)
	}
	wg.Wait()

	base := loadBaseline(cfg.ID)
	findings := loadFindings(cfg.ID)

	// collect
	total, discharged := 0, 0
	byBackend := map[string]int{}
	var solverTime time.Duration
	var samples []map[string]any
	coverLive, coverDead := 0, 0
	newBase := &Baseline{Obligations: map[string]BaseOb{}, Covers: map[string]string{}}
	seenOb := map[string]bool{}
	var unsup, notes []string
	for _, r := range runs {
		newBase.Fucs = append(newBase.Fucs, r.Name)
		if r.EncErr != "" {
			failures = append(failures, &Failure{Name: r.Name + "#engine-error", Run: r, Reason: "engine-error", Detail: r.EncErr})
			continue
		}
		for _, u := range dedupe(r.Enc.unsup) {
			unsup = append(unsup, r.Name+": "+u)
		}
		if *verbose {
			fmt.Printf("   time  %-70s enc %v houdini %v (%d candidates, %d rounds) solve %v\n", r.Name, r.EncTime.Round(time.Millisecond), r.Phase[0].Round(time.Millisecond), r.NCand, r.Rounds, r.Phase[1].Round(time.Millisecond))
		}
		for _, u := range dedupe(r.Enc.assumes) {
			notes = append(notes, r.Name+": "+u)
		}
		for _, o := range r.Enc.obls {
			if o.Houdini >= 0 && !r.Enc.cands[o.Houdini].user {
				continue
			}
			if !o.Owned {
				continue
			}
			total++
			seenOb[o.Name] = true
			solverTime += o.Result.Time
			if *dump != "" && strings.Contains(o.Name, *dump) {
				os.WriteFile(fmt.Sprintf("/tmp/govc-dump-%d.smt2", total), []byte(r.Enc.query(o, true)), 0644)
				fmt.Printf("dumped %s -> /tmp/govc-dump-%d.smt2\n", o.Name, total)
			}
			switch o.Result.Status {
			case "unsat":
				if o.Agree != nil && o.Agree.Status == "sat" {
					failures = append(failures, &Failure{Ob: o, Run: r, Name: o.Name, Reason: "solver-disagree",
						Detail: o.Result.Solver + " unsat, " + o.Agree.Solver + " sat"})
					continue
				}
				discharged++
				byBackend[o.Result.Solver]++
				newBase.Obligations[o.Name] = BaseOb{o.Result.Solver, o.Result.Time.Milliseconds()}
				if len(samples) < 6 && (total%17 == 1 || o.Clause != nil && len(samples) < 3) {
					samples = append(samples, map[string]any{"obligation": o.Name, "pos": o.Pos.String(), "backend": o.Result.Solver,
						"ms": o.Result.Time.Milliseconds(), "constraints_in_scope": o.NCons, "smt_bytes": len(r.Enc.query(o, false))})
				}
				if *verbose {
					fmt.Printf("   ok    %-90s %s %v\n", o.Name, o.Result.Solver, o.Result.Time.Round(time.Millisecond))
				}
			default:
				failures = append(failures, &Failure{Ob: o, Run: r, Name: o.Name, Reason: o.Result.Status, Detail: o.Detail})
			}
		}
		var deadNow []*Obligation
		for _, c := range r.Covers {
			if *dump != "" && strings.Contains(c.Name, *dump) {
				os.WriteFile("/tmp/govc-dump-cover.smt2", []byte(r.Enc.query(c, false)), 0644)
				fmt.Printf("dumped %s -> /tmp/govc-dump-cover.smt2\n", c.Name)
			}
			verdict := "live"
			if c.Result.Status == "unsat" {
				verdict = "dead"
				coverDead++
			} else {
				coverLive++
			}
			newBase.Covers[c.Name] = verdict
			if verdict == "dead" {
				deadNow = append(deadNow, c)
			}
		}
		// Cover names carry SSA block numbers, which harmless edits renumber: a dead return is an alarm only when the
		// function has MORE dead returns than the baseline recorded for it.
		baseDead := 0
		for n, v := range base.Covers {
			if v == "dead" && strings.HasPrefix(n, r.Name+"#cover:") {
				baseDead++
			}
		}
		if len(deadNow) > baseDead && !*update {
			for _, c := range deadNow {
				if base.Covers[c.Name] != "dead" {
					failures = append(failures, &Failure{Ob: c, Run: r, Name: c.Name, Reason: "cover-dead",
						Detail: "return became unreachable or the assumptions of this function are contradictory"})
				}
			}
		}
	}
	// obligations that the baseline lists but this run did not generate: the code path or the contract anchor vanished.
	if *only == "" && !*update {
		var gone []string
		for n := range base.Obligations {
			if !seenOb[n] && moduleActive(n, cfg, *tier) {
				gone = append(gone, n)
			}
		}
		sort.Strings(gone)
		// A vanished obligation is not a violation by itself (refactors remove index expressions). A vanished
		// *contract* obligation (post/assert/inv/pre) means a clause lost its anchor.
		for _, n := range gone {
			k := obKind(n)
			if k == "post" || k == "assert" || strings.HasPrefix(k, "inv-") || k == "decr" || k == "frame" || strings.HasPrefix(k, "pre") || k == "lemma" {
				if fucStillRuns(n, runs) && clauseStillPresent(n, runs) {
					continue // ordinal shifted: same clause, renumbered
				}
				failures = append(failures, &Failure{Name: n, Reason: "anchor-missing", Detail: "baseline obligation no longer generated"})
			}
		}
	}
	if total == 0 && len(failures) == 0 {
		failures = append(failures, &Failure{Name: cfg.ID + "#vacuous", Reason: "engine-error", Detail: "no obligations generated"})
	}

	// known findings / replay / report
	violations := 0
	var knownLines []string
	var violationLines []string
	for _, f := range failures {
		if f.Ob != nil && f.Run != nil && (f.Reason == "sat" || f.Reason == "unknown" || f.Reason == "timeout") {
			if kf := matchFinding(findings, f, timeout); kf != nil {
				f.Known = kf
				knownLines = append(knownLines, fmt.Sprintf("KNOWN-FINDING: property=%s %s [obligation %s]", cfg.ID, kf.What, f.Name))
				total-- // a known-failing obligation is not claimed
				continue
			}
		}
		violations++
		if selftest {
			violationLines = append(violationLines, fmt.Sprintf("SELFTEST-VIOLATION property=%s obligation=%s reason=%s", cfg.ID, f.Name, f.Reason))
			continue
		}
		path := writeReplay(cfg.ID, f, *tier)
		line := fmt.Sprintf("VIOLATION property=%s replay=%s obligation=%s reason=%s", cfg.ID, path, f.Name, f.Reason)
		if !f.Replayed {
			line += " no-failing-input-found"
		}
		violationLines = append(violationLines, line)
	}
	sort.Strings(knownLines)
	for _, l := range dedupe(knownLines) {
		fmt.Println(l)
	}

	wall := time.Since(t0).Seconds()
	fmt.Printf("property %s tier %s: %d functions under contract, %d obligations, %d discharged, %d violations, %d known, covers live=%d dead=%d, load %.1fs solver %.1fs wall %.1fs backends %v\n",
		cfg.ID, *tier, len(runs), total, discharged, violations, len(dedupe(knownLines)), coverLive, coverDead, loadS, solverTime.Seconds(), wall, byBackend)
	for _, f := range failures {
		if f.Known != nil {
			continue
		}
		pos := ""
		if f.Ob != nil {
			pos = f.Ob.Pos.String()
		}
		fmt.Printf("   FAIL %s [%s] %s %s\n", f.Name, f.Reason, pos, f.Detail)
		if f.Ob != nil && f.Reason == "sat" {
			fmt.Print(modelSummary(f.Ob.Result.Out))
		}
	}

	if *only == "" {
		if *update {
			if violations > 0 {
				fmt.Println("baseline NOT updated: violations present")
			} else {
				saveBaseline(cfg.ID, newBase)
				fmt.Printf("baseline updated: %d obligations, %d covers\n", len(newBase.Obligations), len(newBase.Covers))
			}
		}
		if !selftest {
			writeEvidence(&cfg, *tier, seed, runs, total, discharged, byBackend, solverTime, samples, coverLive, coverDead, knownLines,
				violations, wall, contractFiles, axioms, unsup, notes, failures)
		}
	}
	for _, l := range violationLines {
		fmt.Println(l)
	}
	if violations > 0 {
		return 1
	}
	return 0
}

func specSuffix(fn *ssa.Function, spec map[string]string) string {
	var parts []string
	for _, p := range fn.Params {
		if t, ok := spec[p.Name()]; ok {
			parts = append(parts, p.Name()+"="+t)
		}
	}
	return strings.Join(parts, ",")
}

func contains(xs []string, x string) bool {
	for _, y := range xs {
		if y == x {
			return true
		}
	}
	return false
}

func contractMentions(c *Contract, id string) bool {
	has := func(cs []*Clause) bool {
		for _, cl := range cs {
			if len(cl.Tags) == 0 || contains(cl.Tags, id) {
				if len(cl.Tags) > 0 {
					return true
				}
			}
		}
		return false
	}
	if has(c.Requires) || has(c.Ensures) {
		return true
	}
	for _, a := range c.Asserts {
		if contains(a.C.Tags, id) {
			return true
		}
	}
	return false
}

func obKind(name string) string {
	i := strings.Index(name, "#")
	if i < 0 {
		return ""
	}
	k := name[i+1:]
	if j := strings.Index(k, ":"); j >= 0 {
		k = k[:j]
	}
	return k
}

func moduleActive(obName string, cfg PropConfig, tier string) bool {
	for _, mc := range cfg.Modules {
		if strings.HasPrefix(obName, mc.Name+"/") {
			return !(mc.Tier == "thorough" && tier != "thorough")
		}
	}
	return false
}

func fucStillRuns(obName string, runs []*FuncRun) bool {
	fn := obName[:strings.Index(obName, "#")]
	for _, r := range runs {
		if r.Name == fn {
			return true
		}
	}
	return false
}

// clauseStillPresent: the same function still produces an owned obligation with the same kind and description
// (only the trailing ordinal differs).
func clauseStillPresent(obName string, runs []*FuncRun) bool {
	stem := obName
	if i := strings.LastIndex(stem, "@"); i >= 0 {
		stem = stem[:i]
	}
	for _, r := range runs {
		if r.Enc == nil {
			continue
		}
		for _, o := range r.Enc.obls {
			if o.Owned && strings.HasPrefix(o.Name, stem+"@") {
				return true
			}
		}
	}
	return false
}

// solveFunc runs Houdini, cover checks and the real obligations of one function.
func solveFunc(r *FuncRun, timeout, retry time.Duration, thorough bool) {
	enc := r.Enc
	ask := func(o *Obligation, model bool, to time.Duration) SolverResult {
		solverSem <- struct{}{}
		defer func() { <-solverSem }()
		return race(enc.query(o, model), to)
	}
	t0 := time.Now()
	defer func() { r.Phase[1] = time.Since(t0) - r.Phase[0] }()
	for {
		r.Rounds++
		changed := false
		var wg sync.WaitGroup
		for _, o := range enc.obls {
			if o.Houdini < 0 || !enc.cands[o.Houdini].alive || enc.cands[o.Houdini].user {
				continue
			}
			wg.Add(1)
			go func(o *Obligation) {
				defer wg.Done()
				solverSem <- struct{}{}
				defer func() { <-solverSem }()
				o.Result = raceSet(enc.query(o, false), 2*time.Second, solvers[:2])
			}(o)
		}
		wg.Wait()
		for _, o := range enc.obls {
			if o.Houdini >= 0 && enc.cands[o.Houdini].alive && !enc.cands[o.Houdini].user && o.Result.Status != "unsat" && o.Result.Status != "" {
				enc.cands[o.Houdini].alive = false
				changed = true
			}
		}
		if !changed {
			break
		}
	}
	for _, c := range enc.cands {
		if !c.user {
			r.NCand++
		}
		if c.alive && !c.user {
			r.Kept = append(r.Kept, c.desc)
		}
	}
	r.Phase[0] = time.Since(t0)
	var wg sync.WaitGroup
	for _, rt := range enc.rets {
		o := &Obligation{Name: fmt.Sprintf("%s#cover:return@b%d", r.Name, rt.b.Index), Kind: "cover", NCons: len(enc.cons), Goal: not(enc.reach[rt.b]),
			Pos: enc.prog.Fset.Position(rt.b.Instrs[len(rt.b.Instrs)-1].Pos()), Houdini: -1}
		r.Covers = append(r.Covers, o)
		wg.Add(1)
		go func(o *Obligation) {
			defer wg.Done()
			solverSem <- struct{}{}
			defer func() { <-solverSem }()
			o.Result = raceSet(enc.query(o, false), 2*time.Second, solvers[:2])
		}(o)
	}
	for _, o := range enc.obls {
		if o.Houdini >= 0 && !enc.cands[o.Houdini].user {
			continue
		}
		if !o.Owned {
			continue
		}
		wg.Add(1)
		go func(o *Obligation) {
			defer wg.Done()
			o.Result = ask(o, true, timeout)
			if o.Result.Status == "timeout" {
				// never report a quick-tier timeout directly
				o.Result = ask(o, true, retry)
			}
			if thorough && o.Result.Status == "unsat" {
				second := raceOther(enc.query(o, false), o.Result.Solver, timeout)
				o.Agree = &second
			}
		}(o)
	}
	wg.Wait()
}

func loadBaseline(id string) *Baseline {
	b := &Baseline{Obligations: map[string]BaseOb{}, Covers: map[string]string{}}
	raw, err := os.ReadFile(filepath.Join(verifRoot, "baseline", id+".json"))
	if err == nil {
		json.Unmarshal(raw, b)
	}
	if b.Obligations == nil {
		b.Obligations = map[string]BaseOb{}
	}
	if b.Covers == nil {
		b.Covers = map[string]string{}
	}
	return b
}

func saveBaseline(id string, b *Baseline) {
	os.MkdirAll(filepath.Join(verifRoot, "baseline"), 0755)
	sort.Strings(b.Fucs)
	raw, _ := json.MarshalIndent(b, "", " ")
	os.WriteFile(filepath.Join(verifRoot, "baseline", id+".json"), raw, 0644)
}

// modelSummary prints the input-related definitions of a model.
func modelSummary(out string) string {
	var sb strings.Builder
	lines := strings.Split(out, "\n")
	for i, l := range lines {
		if strings.Contains(l, "define-fun |in.") || strings.Contains(l, "define-fun |ld.") {
			val := ""
			if i+1 < len(lines) {
				val = strings.TrimSpace(lines[i+1])
			}
			fs := strings.Fields(strings.TrimSpace(l))
			if len(fs) < 2 {
				continue
			}
			sb.WriteString(fmt.Sprintf("           %s = %s\n", fs[1], strings.TrimSuffix(val, ")")))
		}
	}
	return sb.String()
}
