package main

import (
	"context"
	"encoding/json"
	"fmt"
	"go/types"
	"os"
	"os/exec"
	"path/filepath"
	"sort"
	"strings"
	"sync"
	"time"

	"golang.org/x/tools/go/ssa"
)

// Closed-term evaluation: package-level tables that are built from constants at init time (MethodNameMapping, the
// escaper character sets ...) enter verification conditions as ground facts obtained by RUNNING THE REAL INITIALIZER in
// a throw-away in-package test (overlay; nothing is written to the repository) on every run. An edit to an
// initializer therefore changes the facts and the obligations that depend on them.
// Assumption (listed in the evidence): such tables are not modified after package initialisation.

var closedMu sync.Mutex

func (m *Module) closedTerm(g *ssa.Global) (json.RawMessage, bool) {
	closedMu.Lock()
	defer closedMu.Unlock()
	pk := g.Pkg.Pkg
	key := pk.Path() + "." + g.Name()
	if m.closed == nil {
		m.closed = map[string]json.RawMessage{}
		m.closedTried = map[string]bool{}
	}
	if v, ok := m.closed[key]; ok {
		return v, true
	}
	if m.closedTried[pk.Path()] {
		return nil, false
	}
	m.closedTried[pk.Path()] = true
	// all closed terms of this package in one run
	var names []string
	for n := range m.DB.closedTerms {
		p, nm, _ := strings.Cut(n, ".")
		if p == pk.Name() {
			names = append(names, nm)
		}
	}
	sort.Strings(names)
	if len(names) == 0 {
		return nil, false
	}
	var sb strings.Builder
	fmt.Fprintf(&sb, "package %s\n\nimport (\n\t\"encoding/json\"\n\t\"fmt\"\n\t\"testing\"\n)\n\nfunc TestGovcClosedTerms(t *testing.T) {\n\tout := map[string]interface{}{}\n", pk.Name())
	for _, n := range names {
		fmt.Fprintf(&sb, "\tout[%q] = %s\n", n, n)
	}
	sb.WriteString("\tb, err := json.Marshal(out)\n\tif err != nil {\n\t\tt.Fatal(err)\n\t}\n\tfmt.Println(\"GOVC-CLOSED:\" + string(b))\n}\n")
	pos := m.Prog.Fset.Position(g.Pos())
	pkgDir := filepath.Dir(pos.Filename)
	tmp, _ := os.CreateTemp("", "govc-closed-*_test.go")
	tmp.WriteString(sb.String())
	tmp.Close()
	defer os.Remove(tmp.Name())
	ov := map[string]any{"Replace": map[string]string{filepath.Join(pkgDir, "govc_closed_generated_test.go"): tmp.Name()}}
	raw, _ := json.Marshal(ov)
	ovf, _ := os.CreateTemp("", "govc-overlay-*.json")
	ovf.Write(raw)
	ovf.Close()
	defer os.Remove(ovf.Name())
	ctx, cancel := context.WithTimeout(context.Background(), 180*time.Second)
	defer cancel()
	cmd := exec.CommandContext(ctx, "go", "test", "-overlay", ovf.Name(), "-vet=off", "-count=1", "-timeout", "60s", "-v", "-run", "^TestGovcClosedTerms$", ".")
	cmd.Dir = pkgDir
	cmd.Env = append(os.Environ(), "GOFLAGS=-mod=mod", "GOPROXY=off", "GOSUMDB=off", "GOTOOLCHAIN=local")
	out, _ := cmd.CombinedOutput()
	for _, l := range strings.Split(string(out), "\n") {
		if strings.HasPrefix(l, "GOVC-CLOSED:") {
			var vals map[string]json.RawMessage
			if json.Unmarshal([]byte(strings.TrimPrefix(l, "GOVC-CLOSED:")), &vals) == nil {
				for n, v := range vals {
					m.closed[pk.Path()+"."+n] = v
				}
			}
		}
	}
	if _, ok := m.closed[key]; !ok {
		fmt.Fprintf(os.Stderr, "closed-term evaluation of %s failed:\n%s\n", key, string(out))
	}
	v, ok := m.closed[key]
	return v, ok
}

// closedFacts assumes the evaluated content of a package-level table for the value just loaded from it.
func (e *Enc) closedFacts(g *ssa.Global, loaded *Val, st *State) {
	if e.module == nil || g.Pkg == nil {
		return
	}
	key := g.Pkg.Pkg.Name() + "." + g.Name()
	if !e.module.DB.closedTerms[key] {
		return
	}
	raw, ok := e.module.closedTerm(g)
	if !ok {
		e.unsupported("closed-term evaluation of %s failed", key)
		return
	}
	e.note("closed term %s evaluated by running the real initialiser; assumed not modified after init", key)
	switch t := loaded.typ.Underlying().(type) {
	case *types.Map:
		mi := mapInfoOf(loaded.typ)
		if !mi.ok {
			return
		}
		m := loaded.c[0]
		var asInt map[string]int64
		var asStruct map[string]struct{}
		kb, _ := t.Key().Underlying().(*types.Basic)
		if kb == nil {
			return
		}
		keyTerm := func(k string) string {
			if kb.Info()&types.IsString != 0 {
				return e.strLit(k)
			}
			return k // integer keys are marshalled as decimal strings
		}
		var keys []string
		facts := []string{not(eq(m, "null"))}
		if json.Unmarshal(raw, &asInt) == nil && isInt(t.Elem()) {
			for k := range asInt {
				keys = append(keys, k)
			}
			sort.Strings(keys)
			for _, k := range keys {
				facts = append(facts, e.mapHas(st, mi, m, keyTerm(k)), eq(e.mapGet(st, mi, m, keyTerm(k)).c[0], num(asInt[k])))
			}
		} else if json.Unmarshal(raw, &asStruct) == nil {
			for k := range asStruct {
				keys = append(keys, k)
			}
			sort.Strings(keys)
			for _, k := range keys {
				facts = append(facts, e.mapHas(st, mi, m, keyTerm(k)))
			}
		} else {
			e.unsupported("closed term %s: unsupported map shape", key)
			return
		}
		var alts []string
		for _, k := range keys {
			alts = append(alts, eq("kk", keyTerm(k)))
		}
		facts = append(facts, fmt.Sprintf("(forall ((kk %s)) (! (=> %s %s) :pattern (%s)))", mi.ksort, e.mapHas(st, mi, m, "kk"), or(alts...),
			sel(sel(e.marr(st, mi.hasN, mi.ksort, "Bool"), m), "kk")))
		e.assumeHere(and(facts...))
	case *types.Basic:
		if isString(loaded.typ) {
			var sv string
			if json.Unmarshal(raw, &sv) == nil {
				e.assumeHere(eq(loaded.c[0], e.strLit(sv)))
			}
		} else if isInt(loaded.typ) {
			var iv int64
			if json.Unmarshal(raw, &iv) == nil {
				e.assumeHere(eq(loaded.c[0], num(iv)))
			}
		}
	case *types.Slice:
		// []string (or a named slice of strings): length and every element
		var ss []string
		if eb, _ := t.Elem().Underlying().(*types.Basic); eb == nil || eb.Info()&types.IsString == 0 || json.Unmarshal(raw, &ss) != nil {
			e.unsupported("closed term %s: unsupported slice shape %s", key, loaded.typ)
			return
		}
		facts := []string{eq(loaded.c[2], num(int64(len(ss))))}
		for i, sv := range ss {
			ref := app("elem", loaded.c[0], app("+", loaded.c[1], num(int64(i))))
			facts = append(facts, eq(e.loadAt(st, ref, t.Elem()).c[0], e.strLit(sv)))
		}
		e.assumeHere(and(facts...))
	default:
		e.unsupported("closed term %s: unsupported shape %s", key, loaded.typ)
	}
}
