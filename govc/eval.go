package main

import (
	"os"
	"fmt"
	"go/types"
	"strings"

	"golang.org/x/tools/go/ssa"
)

type Env struct {
	e      *Enc
	st     *State
	old    *State
	vars   map[string]*Val
	sub    map[ssa.Value]*Val
	header *ssa.BasicBlock
	noLocals bool
	foreign  bool // the clause belongs to ANOTHER function (a callee's postcondition assumed at a call site): builtins that name call sites are meaningless here
	inOld    bool
	asGoal   bool // the clause is being proved (not assumed): existentials may use their witness hints
	wantCur  bool
	at       ssa.Instruction // program point of the clause (for source-level locals)
	qOff     map[string]map[string]bool // quantified variable term -> slice offsets it is added to
	qShift   map[string]string          // quantified variable -> offset it has been shifted by
	qPats    *[]string
	bound  map[string]string
	boundStr map[string]bool
}

type visitedMarker struct{ types.Type }

var (
	tInt  = types.Typ[types.Int]
	tBool = types.Typ[types.Bool]
)

func (v *Env) formula(x Expr) string {
	r := v.eval(x)
	if len(r.c) != 1 {
		panic(fmt.Sprintf("contract expression is not a formula: %#v", x))
	}
	return r.c[0]
}

func (v *Env) lookup(name string) *Val {
	if t, ok := v.bound[name]; ok {
		if v.boundStr[name] {
			return &Val{typ: types.Typ[types.String], c: []string{t}}
		}
		return &Val{typ: tInt, c: []string{t}}
	}
	if x, ok := v.vars[name]; ok {
		if v.wantCur && v.at != nil {
			// cur(x): the current value of a parameter that the body reassigns
			if r := v.reaching(name); r != nil {
				return r
			}
		}
		return x
	}
	if p, ok := v.e.freeRef[name]; ok {
		return v.e.loadAt(v.st, p.c[0], p.typ.Underlying().(*types.Pointer).Elem())
	}
	if strings.HasPrefix(name, "$") { // probe-only escape: SSA value by register name
		for _, b := range v.e.fn.Blocks {
			for _, in := range b.Instrs {
				if val, ok := in.(ssa.Value); ok && val.Name() == name[1:] {
					return v.e.val(val)
				}
			}
		}
	}
	if v.noLocals {
		if c := v.pkgConst(name); c != nil {
			return c
		}
		if g := v.pkgVar(name); g != nil {
			return g
		}
		panic("contract: unknown identifier " + name)
	}
	// source-level local at a loop header
	if v.header != nil {
		for _, in := range v.header.Instrs {
			if phi, ok := in.(*ssa.Phi); ok && phi.Comment == name {
				if s, ok := v.sub[phi]; ok {
					return s
				}
				return v.e.val(phi)
			}
		}
	}
	// package-level constant
	if c := v.pkgConst(name); c != nil {
		return c
	}
	// package-level variable: its value in the state of the clause
	if g := v.pkgVar(name); g != nil {
		return g
	}
	// source-level local: the definition that reaches the program point of the clause
	if v.at != nil {
		if x := v.reaching(name); x != nil {
			return x
		}
	}
	// source-level local through debug references (ssa.GlobalDebug)
	for _, b := range v.e.fn.Blocks {
		for _, in := range b.Instrs {
			if d, ok := in.(*ssa.DebugRef); ok {
				if obj := d.Object(); obj != nil && obj.Name() == name && !isFieldObj(obj) {
					if x := v.debugRefVal(d); x != nil {
						return x
					}
				}
			}
		}
	}
	// any value with that source name defined before (single definition)
	for val, x := range v.e.vals {
		switch d := val.(type) {
		case *ssa.Phi:
			if d.Comment == name {
				return x
			}
		}
	}
	panic("contract: unknown identifier " + name)
}

func (v *Env) pkgConst(name string) *Val {
	if v.e.fn.Pkg == nil {
		return nil
	}
	pk := v.e.fn.Pkg.Pkg
	if f := v.e.fn; f.Parent() != nil {
		for f.Parent() != nil {
			f = f.Parent()
		}
		if f.Pkg != nil {
			pk = f.Pkg.Pkg
		}
	}
	if c, ok := pk.Scope().Lookup(name).(*types.Const); ok {
		return v.e.constVal(ssa.NewConst(c.Val(), c.Type()))
	}
	return nil
}

// cellOf: variables that live in a heap cell (captured by a closure or address-taken) are read from the cell in
// the state of the clause, never from a stale value recorded at their definition.
func (v *Env) cellOf(obj types.Object) ssa.Value {
	e := v.e
	if e.cellVars == nil {
		e.cellVars = map[string]ssa.Value{}
		count := map[string]int{}
		for _, b := range e.fn.Blocks {
			for _, in := range b.Instrs {
				if a, ok := in.(*ssa.Alloc); ok && a.Comment != "" && a.Comment != "varargs" && a.Comment != "complit" {
					count[a.Comment]++
					e.cellVars[a.Comment] = a
				}
			}
		}
		for n, c := range count {
			if c != 1 {
				delete(e.cellVars, n) // ambiguous (shadowed names): not resolved through the cell
			}
		}
	}
	return e.cellVars[obj.Name()]
}

func (v *Env) pkgVar(name string) *Val {
	fn := v.e.fn
	for fn.Parent() != nil {
		fn = fn.Parent()
	}
	if fn.Pkg == nil {
		return nil
	}
	g, ok := fn.Pkg.Members[name].(*ssa.Global)
	if !ok {
		// an exported variable of a directly imported package, when the name is unambiguous (e.g. patch.NoSuchFieldErr)
		var found *ssa.Global
		n := 0
		for _, imp := range fn.Pkg.Pkg.Imports() {
			if ip := fn.Prog.Package(imp); ip != nil {
				if ig, ok := ip.Members[name].(*ssa.Global); ok && ig.Object().Exported() {
					found = ig
					n++
				}
			}
		}
		if n != 1 {
			if os.Getenv("GOVC_DEBUG") != "" {
				fmt.Fprintf(os.Stderr, "pkgVar %s: %d candidates among %d imports of %s\n", name, n, len(fn.Pkg.Pkg.Imports()), fn.Pkg.Pkg.Path())
			}
			return nil
		}
		g = found
	}
	pt, ok := g.Type().Underlying().(*types.Pointer)
	if !ok {
		return nil
	}
	return v.e.loadAt(v.st, v.e.val(g).c[0], pt.Elem())
}

// importedVar: pkgname.Name for an exported package-level variable of a package the function's package imports.
func (v *Env) importedVar(pkg, name string) *Val {
	if _, isVar := v.vars[pkg]; isVar {
		return nil
	}
	fn := v.e.fn
	for fn.Parent() != nil {
		fn = fn.Parent()
	}
	if fn.Pkg == nil {
		return nil
	}
	for _, imp := range fn.Pkg.Pkg.Imports() {
		if imp.Name() != pkg {
			continue
		}
		if ip := fn.Prog.Package(imp); ip != nil {
			if ig, ok := ip.Members[name].(*ssa.Global); ok && ig.Object().Exported() {
				if pt, ok := ig.Type().Underlying().(*types.Pointer); ok {
					return v.e.loadAt(v.st, v.e.val(ig).c[0], pt.Elem())
				}
			}
		}
	}
	return nil
}

func (v *Env) debugRefVal(d *ssa.DebugRef) *Val {
	if !d.IsAddr && d.Object() != nil {
		if cell := v.cellOf(d.Object()); cell != nil {
			if pv, ok := v.e.vals[cell]; ok {
				if pt, ok := cell.Type().Underlying().(*types.Pointer); ok {
					return v.e.loadAt(v.st, pv.c[0], pt.Elem())
				}
			}
		}
	}
	if d.IsAddr {
		pt, ok := d.X.Type().Underlying().(*types.Pointer)
		if !ok {
			return nil
		}
		pv, ok := v.e.vals[d.X]
		if !ok {
			return nil
		}
		return v.e.loadAt(v.st, pv.c[0], pt.Elem())
	}
	if x, ok := v.e.vals[d.X]; ok {
		return x
	}
	if c, ok := d.X.(*ssa.Const); ok {
		return v.e.constVal(c)
	}
	return nil
}

// reaching finds the value of source variable name at v.at: the nearest definition (debug reference or phi) walking
// backwards in the block and then up the dominator tree.
func (v *Env) reaching(name string) *Val {
	b := v.at.Block()
	idx := len(b.Instrs)
	for i, in := range b.Instrs {
		if in == v.at {
			idx = i
		}
	}
	for b != nil {
		for i := idx - 1; i >= 0; i-- {
			switch d := b.Instrs[i].(type) {
			case *ssa.DebugRef:
				if obj := d.Object(); obj != nil && obj.Name() == name && !isFieldObj(obj) {
					if x := v.debugRefVal(d); x != nil {
						return x
					}
				}
			case *ssa.Phi:
				if d.Comment == name {
					if s, ok := v.sub[d]; ok {
						return s
					}
					if x, ok := v.e.vals[d]; ok {
						return x
					}
				}
			}
		}
		b = b.Idom()
		if b != nil {
			idx = len(b.Instrs)
		}
	}
	return nil
}

// firstDef: the first definition of source variable name in the function (its initial value).
func (v *Env) firstDef(name string) *Val {
	for _, b := range v.e.fn.Blocks {
		for _, in := range b.Instrs {
			if d, ok := in.(*ssa.DebugRef); ok && !d.IsAddr {
				if obj := d.Object(); obj != nil && obj.Name() == name && !isFieldObj(obj) {
					if x := v.debugRefVal(d); x != nil {
						return x
					}
				}
			}
		}
	}
	return nil
}

func isFieldObj(o types.Object) bool {
	v, ok := o.(*types.Var)
	return ok && v.IsField()
}

func (v *Env) eval(x Expr) *Val {
	e := v.e
	switch x := x.(type) {
	case *ENum:
		return &Val{typ: tInt, c: []string{num(x.V)}}
	case *EBool:
		if x.B {
			return &Val{typ: tBool, c: []string{"true"}}
		}
		return &Val{typ: tBool, c: []string{"false"}}
	case *EStr:
		return &Val{typ: types.Typ[types.String], c: []string{e.strLit(x.S)}}
	case *EIdent:
		if x.Name == "nil" {
			return &Val{typ: nil}
		}
		return v.lookup(x.Name)
	case *EOld:
		o := *v
		o.inOld = true
		o.st = v.old
		return o.eval(x.X)
	case *ESel:
		// pkg.Name: an exported variable of a directly imported package (when pkg is not a variable in scope)
		if id, ok := x.X.(*EIdent); ok {
			if g := v.importedVar(id.Name, x.Name); g != nil {
				return g
			}
		}
		base := v.eval(x.X)
		return v.sel(base, x.Name)
	case *EIndex:
		b, i := v.eval(x.X), v.eval(x.I)
		if _, ok := b.typ.(visitedMarker); ok {
			return &Val{typ: tBool, c: []string{sel(b.c[0], i.c[0])}}
		}
		if mi := mapInfoOf(b.typ); mi.ok {
			return e.mapGet(v.st, mi, b.c[0], i.c[0])
		}
		switch t := b.typ.Underlying().(type) {
		case *types.Slice:
			idx := app("+", b.c[1], i.c[0])
			if v.qOff != nil {
				// index by a quantified variable: remember the slice offset (for re-indexing) / use the re-indexed form
				for q, off := range v.qShift {
					if i.c[0] == app("-", q, off) && b.c[1] == off {
						idx = q
						*v.qPats = append(*v.qPats, app("elem", b.c[0], q))
					}
				}
				if _, isQ := v.qOff[i.c[0]]; isQ {
					v.qOff[i.c[0]][b.c[1]] = true
				}
			}
			ref := app("elem", b.c[0], idx)
			if len(v.bound) == 0 {
				return v.heapVal(e.loadAt(v.st, ref, t.Elem()))
			}
			return e.loadAt(v.st, ref, t.Elem())
		case *types.Basic:
			return &Val{typ: types.Typ[types.Uint8], c: []string{app("sat", b.c[0], i.c[0])}}
		}
		panic("contract: cannot index")
	case *ESlice:
		b := v.eval(x.X)
		lo := "0"
		if x.Lo != nil {
			lo = v.eval(x.Lo).c[0]
		}
		switch b.typ.Underlying().(type) {
		case *types.Slice:
			hi := b.c[2]
			if x.Hi != nil {
				hi = v.eval(x.Hi).c[0]
			}
			if lo == "0" {
				return &Val{typ: b.typ, c: []string{b.c[0], b.c[1], hi, b.c[3]}}
			}
			return &Val{typ: b.typ, c: []string{b.c[0], app("+", b.c[1], lo), app("-", hi, lo), app("-", b.c[3], lo)}}
		}
		if isString(b.typ) {
			hi := app("slen", b.c[0])
			if x.Hi != nil {
				hi = v.eval(x.Hi).c[0]
			}
			return &Val{typ: b.typ, c: []string{e.substr(b.c[0], lo, hi)}}
		}
		panic("contract: slicing of unsupported type")
	case *ECall:
		// a pure callback or a functional module function applied in a contract
		if r := v.applyNamed(x); r != nil {
			return r
		}
		switch x.Fn {
		case "len":
			a := v.eval(x.Args[0])
			switch a.typ.Underlying().(type) {
			case *types.Slice:
				return &Val{typ: tInt, c: []string{a.c[2]}}
			case *types.Basic:
				return &Val{typ: tInt, c: []string{app("slen", a.c[0])}}
			case *types.Map:
				return e.mapLen(v.st, a.typ, a)
			}
			panic("contract: len of unsupported type")
		case "cap":
			a := v.eval(x.Args[0])
			return &Val{typ: tInt, c: []string{a.c[3]}}
		case "TrimPrefix":
			a, b := v.eval(x.Args[0]), v.eval(x.Args[1])
			return v.e.ufTerm("strings."+x.Fn, []*Val{a, b}, types.Typ[types.String])
		case "Float64bits":
			return &Val{typ: types.Typ[types.Uint64], c: []string{v.e.floatBits(v.eval(x.Args[0]).c[0], 64)}}
		case "Float32bits":
			return &Val{typ: types.Typ[types.Uint32], c: []string{v.e.floatBits(v.eval(x.Args[0]).c[0], 32)}}
		case "identical":
			// identical(a, b): identical values (SMT equality; for floats: the same IEEE datum, NaN included, +0 and -0 distinct)
			a, b := v.eval(x.Args[0]), v.eval(x.Args[1])
			return &Val{typ: tBool, c: []string{v.equal(a, b)}}
		case "funcref":
			// funcref("pkg/path.Func"): the function constant, as the encoding represents a reference to that function
			ts, ok := x.Args[0].(*EStr)
			if !ok {
				panic("contract: funcref(\"pkg.Func\")")
			}
			return &Val{typ: types.NewSignatureType(nil, nil, nil, nil, nil, false), c: []string{app("box", e.declare("fn!"+ts.S, "Int"))}}
		case "bytesEq":
			// bytesEq(b, "literal"): the byte slice holds exactly the literal's bytes
			b := v.eval(x.Args[0])
			ls, ok := x.Args[1].(*EStr)
			if !ok || len(b.c) != 4 {
				panic("contract: bytesEq(slice, \"literal\")")
			}
			parts := []string{eq(b.c[2], num(int64(len(ls.S))))}
			st := b.typ.Underlying().(*types.Slice)
			for i := 0; i < len(ls.S); i++ {
				ref := app("elem", b.c[0], app("+", b.c[1], num(int64(i))))
				parts = append(parts, eq(e.loadAt(v.st, ref, st.Elem()).c[0], num(int64(ls.S[i]))))
			}
			return &Val{typ: tBool, c: []string{and(parts...)}}
		case "ValidUTF8":
			return v.e.ufTerm("spec.ValidUTF8", []*Val{v.eval(x.Args[0])}, tBool)
		case "HasDotSegment":
			return v.e.ufTerm("spec.HasDotSegment", []*Val{v.eval(x.Args[0])}, tBool)
		case "Index":
			a, b := v.eval(x.Args[0]), v.eval(x.Args[1])
			return v.e.ufTerm("strings.Index", []*Val{a, b}, tInt)
		case "TrimSuffix":
			a, b := v.eval(x.Args[0]), v.eval(x.Args[1])
			return v.e.ufTerm("strings.TrimSuffix", []*Val{a, b}, types.Typ[types.String])
		case "HasSuffix", "HasPrefix", "Contains":
			a, b := v.eval(x.Args[0]), v.eval(x.Args[1])
			return v.e.ufTerm("strings."+x.Fn, []*Val{a, b}, tBool)
		case "has":
			m, k := v.eval(x.Args[0]), v.eval(x.Args[1])
			mi := mapInfoOf(m.typ)
			if !mi.ok {
				panic("contract: has() on unsupported map type")
			}
			return &Val{typ: tBool, c: []string{e.mapHas(v.st, mi, m.c[0], k.c[0])}}
		case "visited":
			if v.foreign {
				panic("contract: visited() of another function")
			}
			for _, ri := range e.ranges {
				return &Val{typ: visitedMarker{tBool}, c: []string{e.visited(v.st, ri)}}
			}
			panic("contract: no map range in function")
		case "NameOf":
			return v.e.ufTerm("iface.io/fs.Name", []*Val{v.eval(x.Args[0])}, types.Typ[types.String])
		case "IsDirOf":
			return v.e.ufTerm("iface.io/fs.IsDir", []*Val{v.eval(x.Args[0])}, tBool)
		case "Join":
			var as []*Val
			for _, a := range x.Args {
				as = append(as, v.eval(a))
			}
			return v.e.ufTerm(fmt.Sprintf("path/filepath.Join%d", len(as)), as, types.Typ[types.String])
		case "Dir":
			return v.e.ufTerm("path/filepath.Dir", []*Val{v.eval(x.Args[0])}, types.Typ[types.String])
		case "resultof":
			if v.foreign {
				panic("contract: resultof() of another function")
			}
			ts, ok := x.Args[0].(*EStr)
			if !ok {
				panic("contract: resultof(\"callee#n\")")
			}
			if r, ok := e.siteResults[ts.S]; ok {
				if len(x.Args) == 2 {
					// resultof("site#n", i): the i-th result of a multi-valued call
					idx, ok := x.Args[1].(*ENum)
					tt, isT := r.typ.(*types.Tuple)
					if ok && !isT && idx.V == 0 {
						return r
					}
					if !ok || !isT || int(idx.V) >= tt.Len() {
						panic("contract: resultof index")
					}
					lo, hi := tupleRange(tt, int(idx.V))
					return &Val{typ: tt.At(int(idx.V)).Type(), c: r.c[lo:hi]}
				}
				return r
			}
			if v.at != nil {
				panic(unreachedSite(ts.S))
			}
			panic("contract: no call site " + ts.S + " before this point")
		case "keylt":
			// keylt(a, b): the order sort keys are compared by: strlt on strings, < on numbers
			a, b := v.eval(x.Args[0]), v.eval(x.Args[1])
			if isString(a.typ) {
				return &Val{typ: tBool, c: []string{e.strlt(a.c[0], b.c[0])}}
			}
			return &Val{typ: tBool, c: []string{e.numLess(a, b)}}
		case "isNaN":
			return &Val{typ: tBool, c: []string{app("fp.isNaN", v.eval(x.Args[0]).c[0])}}
		case "isPosInf":
			a := v.eval(x.Args[0]).c[0]
			return &Val{typ: tBool, c: []string{and(app("fp.isInfinite", a), app("fp.isPositive", a))}}
		case "isNegInf":
			a := v.eval(x.Args[0]).c[0]
			return &Val{typ: tBool, c: []string{and(app("fp.isInfinite", a), app("fp.isNegative", a))}}
		case "strlt":
			a, b := v.eval(x.Args[0]), v.eval(x.Args[1])
			return &Val{typ: tBool, c: []string{e.strlt(a.c[0], b.c[0])}}
		case "apply":
			// apply("pkg.Struct.field", fn, args...): the result of calling a pure function-typed field
			ts, ok := x.Args[0].(*EStr)
			if !ok || !e.db.pureFields[ts.S] {
				panic("contract: apply(\"pkg.Struct.field\", fn, args...) needs a declared pure field")
			}
			var as []*Val
			for _, a := range x.Args[1:] {
				as = append(as, v.eval(a))
			}
			sig, ok := as[0].typ.Underlying().(*types.Signature)
			if !ok {
				panic("contract: apply on a non-function")
			}
			var rt types.Type = sig.Results()
			if sig.Results().Len() == 1 {
				rt = sig.Results().At(0).Type()
			}
			return e.ufTerm("field."+ts.S, as, rt)
		case "implements":
			a := v.eval(x.Args[0])
			ts, ok := x.Args[1].(*EStr)
			if !ok {
				panic("contract: implements(x, \"pkg.Iface\")")
			}
			f := e.declareFun("implements!"+ts.S, "(Int) Bool")
			return &Val{typ: tBool, c: []string{and(not(eq(a.c[0], "0")), app(f, a.c[0]))}}
		case "dynImplements":
			// dynImplements(x, "pkg.Iface[K]"): x is a value of type-parameter type; any(x) would pass a type switch
			// case for that interface (same uninterpreted tag function and predicate as the encoding of the switch)
			a := v.eval(x.Args[0])
			ts, ok := x.Args[1].(*EStr)
			if !ok || len(a.c) != 1 {
				panic("contract: dynImplements(x, \"pkg.Iface\") with x of type-parameter type")
			}
			tag := app(e.declareFun("tparam!tag", "(Int) Int"), a.c[0])
			f := e.declareFun("implements!"+ts.S, "(Int) Bool")
			return &Val{typ: tBool, c: []string{and(not(eq(tag, "0")), app(f, tag))}}
		case "tparamImplements":
			// tparamImplements("K", "pkg.Iface[K]"): the type argument bound to type parameter K implements the interface
			// (the same uninterpreted predicate a type switch on any(x), x of type K, consults)
			tn, ok1 := x.Args[0].(*EStr)
			ts, ok2 := x.Args[1].(*EStr)
			if !ok1 || !ok2 {
				panic("contract: tparamImplements(\"K\", \"pkg.Iface\")")
			}
			var tp *types.TypeParam
			for fn := e.fn; fn != nil && tp == nil; fn = fn.Parent() {
				tps := fn.TypeParams()
				for i := 0; i < tps.Len(); i++ {
					if tps.At(i).Obj().Name() == tn.S {
						tp = tps.At(i)
					}
				}
			}
			if tp == nil {
				panic("contract: no type parameter " + tn.S)
			}
			f := e.declareFun("implements!"+ts.S, "(Int) Bool")
			return &Val{typ: tBool, c: []string{app(f, e.typeTag(tp))}}
		case "hdr":
			// hdr(h, "Key"): what h.Get("Key") returns in this state
			h, k := v.eval(x.Args[0]), v.eval(x.Args[1])
			mi := mapInfoOf(h.typ)
			if !mi.ok {
				panic("contract: hdr() on a non-header")
			}
			ck := e.canon(k.c[0])
			has := e.mapHas(v.st, mi, h.c[0], ck)
			val := e.mapGet(v.st, mi, h.c[0], ck)
			first := sel(e.arr(v.st, "C|string|", "Str"), app("elem", val.c[0], val.c[1]))
			return &Val{typ: types.Typ[types.String], c: []string{ite(and(has, app(">", val.c[2], "0")), first, "str!empty")}}
		case "valueat":
			if v.foreign {
				panic("contract: valueat() of another function")
			}
			// valueat("callee#n", x): the value source variable x had at that call site
			ts, ok := x.Args[0].(*EStr)
			if !ok {
				panic("contract: valueat(\"callee#n\", name)")
			}
			var site *ssa.Call
			for _, b := range e.fn.Blocks {
				for _, in := range b.Instrs {
					if c, ok := in.(*ssa.Call); ok {
						if fmt.Sprintf("%s#%d", siteName(c), e.siteOrdinal(c, siteName(c))) == ts.S {
							site = c
						}
					}
				}
			}
			if site == nil {
				panic("contract: no call site " + ts.S)
			}
			c := *v
			c.at = site
			c.wantCur = true
			return c.eval(x.Args[1])
		case "fresh":
			// fresh(x): the object x designates was allocated during this call
			a := v.eval(x.Args[0])
			r := a.c[0]
			var alts []string
			for _, t := range []string{r, owner(r), owner(owner(r))} {
				alts = append(alts, fmt.Sprintf("(and ((_ is obj) %s) (> (oid %s) |alloc!0|))", t, t))
			}
			return &Val{typ: tBool, c: []string{or(alts...)}}
		case "iterfresh":
			// iterfresh(x, N): the object x designates was allocated by this function during the CURRENT iteration of loop N
			if v.foreign {
				panic("contract: iterfresh() of another function")
			}
			a := v.eval(x.Args[0])
			nn, ok := x.Args[1].(*ENum)
			if !ok {
				panic("contract: iterfresh(x, loopOrdinal)")
			}
			wm, ok := e.loopWM[int(nn.V)]
			if !ok {
				panic("contract: iterfresh: loop head not seen yet")
			}
			r := a.c[0]
			return &Val{typ: tBool, c: []string{fmt.Sprintf("(and ((_ is obj) %s) (> (oid %s) %s) (< (oid %s) (+ |alloc!0| 1000000000)))", r, r, wm, r)}}
		case "cur":
			if v.foreign {
				panic("contract: cur() of another function")
			}
			c := *v
			c.wantCur = true
			return c.eval(x.Args[0])
		case "first":
			if v.foreign {
				panic("contract: first() of another function")
			}
			id, ok := x.Args[0].(*EIdent)
			if !ok {
				panic("contract: first(name)")
			}
			if r := v.firstDef(id.Name); r != nil {
				return r
			}
			panic("contract: no definition of " + id.Name)
		case "cast":
			a := v.eval(x.Args[0])
			ts, ok := x.Args[1].(*EStr)
			if !ok {
				panic("contract: cast(x, \"*pkg.T\")")
			}
			t := e.lookupType(ts.S)
			if t == nil {
				panic("contract: unknown type " + ts.S)
			}
			return &Val{typ: t, c: []string{a.c[1]}}
		case "dyntype":
			a := v.eval(x.Args[0])
			ts, ok := x.Args[1].(*EStr)
			if !ok {
				panic("contract: dyntype(x, \"*pkg.T\")")
			}
			t := e.lookupType(ts.S)
			if t == nil {
				panic("contract: unknown type " + ts.S)
			}
			return &Val{typ: tBool, c: []string{eq(a.c[0], e.typeTag(t))}}
		case "thisiter":
			if v.foreign {
				panic("contract: thisiter() of another function")
			}
			ts, ok := x.Args[0].(*EStr)
			if !ok {
				panic("contract: thisiter(\"callee#n\")")
			}
			if _, ok := e.iterSites[ts.S]; !ok {
				panic("contract: thisiter() is only meaningful in a step clause of the loop that contains the site")
			}
			if t, ok := v.st.m["G|iter|"+ts.S]; ok {
				return &Val{typ: tBool, c: []string{t}}
			}
			return &Val{typ: tBool, c: []string{"false"}}
		case "reached":
			if v.foreign {
				panic("contract: reached() of another function")
			}
			ts, ok := x.Args[0].(*EStr)
			if !ok {
				panic("contract: reached(\"callee#n\")")
			}
			e.ghostSites[ts.S] = true
			if t, ok := v.st.m["G|reached|"+ts.S]; ok {
				return &Val{typ: tBool, c: []string{t}}
			}
			return &Val{typ: tBool, c: []string{"false"}}
		case "deref":
			a := v.eval(x.Args[0])
			pt, ok := a.typ.Underlying().(*types.Pointer)
			if !ok {
				panic("contract: deref of non-pointer")
			}
			return e.loadAt(v.st, a.c[0], pt.Elem())
		case "ite":
			c, a, b := v.formula(x.Args[0]), v.eval(x.Args[1]), v.eval(x.Args[2])
			return &Val{typ: a.typ, c: []string{ite(c, a.c[0], b.c[0])}}
		}
		// pure interface method applied in a contract: Method(recv, args...)
		if len(x.Args) >= 1 {
			if rv, ok := v.ifaceUF(x); ok {
				return rv
			}
		}
		if pd, ok := e.db.preds[x.Fn]; ok {
			inner := *v
			inner.vars = map[string]*Val{}
			for k, val := range v.vars {
				inner.vars[k] = val
			}
			for i, p := range pd.Params {
				inner.vars[p] = v.eval(x.Args[i])
			}
			return inner.eval(pd.Body)
		}
		if sf, ok := e.db.specFn[x.Fn]; ok && len(sf.Params) == len(x.Args) {
			// ghost spec function (uninterpreted; given meaning by a ghostdef)
			var as []*Val
			for _, a := range x.Args {
				as = append(as, v.eval(a))
			}
			return e.ufTerm("spec."+x.Fn, as, tInt)
		}
		panic("contract: unknown function " + x.Fn)
	case *EFloat:
		return &Val{typ: types.Typ[types.Float64], c: []string{fpLit(x.V, types.Typ[types.Float64])}}
	case *EUnary:
		a := v.eval(x.X)
		if x.Op == "!" {
			return &Val{typ: tBool, c: []string{not(a.c[0])}}
		}
		return &Val{typ: tInt, c: []string{app("-", a.c[0])}}
	case *EExists:
		if x.Sort == "Int" && x.Witness != nil && v.asGoal {
			// proving an existential with a supplied witness: prove the body for that witness (stronger, hence sound)
			w := v.eval(x.Witness)
			inner := *v
			inner.bound = map[string]string{}
			for k, t := range v.bound {
				inner.bound[k] = t
			}
			inner.bound[x.Var] = w.c[0]
			return &Val{typ: tBool, c: []string{inner.formula(x.Body)}}
		}
		if x.Sort == "Int" {
			inner := *v
			inner.bound = map[string]string{}
			for k, t := range v.bound {
				inner.bound[k] = t
			}
			e.n++
			bv := fmt.Sprintf("x%d!%s", e.n, x.Var)
			inner.bound[x.Var] = bv
			body := inner.formula(x.Body)
			return &Val{typ: tBool, c: []string{fmt.Sprintf("(exists ((%s Int)) %s)", bv, body)}}
		}
		inner := *v
		inner.vars = map[string]*Val{}
		for k, val := range v.vars {
			inner.vars[k] = val
		}
		if x.Witness != nil && v.asGoal {
			inner.vars[x.Var] = v.eval(x.Witness)
			return &Val{typ: tBool, c: []string{inner.formula(x.Body)}}
		}
		e.n++
		bv := fmt.Sprintf("x%d!%s", e.n, x.Var)
		inner.vars[x.Var] = &Val{typ: types.Typ[types.String], c: []string{bv}}
		body := inner.formula(x.Body)
		return &Val{typ: tBool, c: []string{fmt.Sprintf("(exists ((%s Str)) %s)", bv, body)}}
	case *EForall:
		if ks := v.inferKeySort(x.Body, x.Var); ks != "" && ks != x.Sort {
			x = &EForall{Var: x.Var, Body: x.Body, Sort: ks}
		}
		inner := *v
		inner.bound = map[string]string{}
		for k, t := range v.bound {
			inner.bound[k] = t
		}
		e.n++
		bv := fmt.Sprintf("q%d!%s", e.n, x.Var)
		inner.bound[x.Var] = bv
		if x.Sort != "Int" {
			inner.boundStr = map[string]bool{}
			for k := range v.boundStr {
				inner.boundStr[k] = true
			}
			inner.boundStr[x.Var] = true
		}
		if x.Sort == "Int" {
			// Slices are addressed as elem(base, off+i). Arithmetic under a trigger defeats E-matching, so when the
			// bound variable indexes slices with one common offset, quantify over the absolute index k = off+i instead.
			probe := inner
			probe.qOff = map[string]map[string]bool{bv: {}}
			probe.qShift = map[string]string{}
			var dummy []string
			probe.qPats = &dummy
			for k, m := range v.qOff {
				probe.qOff[k] = m
			}

			body := probe.formula(x.Body)
			if offs := probe.qOff[bv]; len(offs) == 1 {
				var off string
				for o := range offs {
					off = o
				}
				if off != "0" {
					shifted := inner
					shifted.bound = map[string]string{}
					for k, t := range inner.bound {
						shifted.bound[k] = t
					}
					shifted.bound[x.Var] = app("-", bv, off)
					shifted.qOff = map[string]map[string]bool{}
					shifted.qShift = map[string]string{bv: off}
					var pats []string
					shifted.qPats = &pats
					body2 := shifted.formula(x.Body)
					pat := ""
					if len(pats) > 0 {
						pat = " :pattern (" + strings.Join(dedupe(pats), " ") + ")"
						return &Val{typ: tBool, c: []string{fmt.Sprintf("(forall ((%s Int)) (! %s%s))", bv, body2, pat)}}
					}
				}
			}
			return &Val{typ: tBool, c: []string{fmt.Sprintf("(forall ((%s %s)) %s)", bv, x.Sort, body)}}
		}
		body := inner.formula(x.Body)
		return &Val{typ: tBool, c: []string{fmt.Sprintf("(forall ((%s %s)) %s)", bv, x.Sort, body)}}
	case *EBinary:
		switch x.Op {
		case "&&":
			return &Val{typ: tBool, c: []string{and(v.formula(x.L), v.formula(x.R))}}
		case "||":
			return &Val{typ: tBool, c: []string{or(v.formula(x.L), v.formula(x.R))}}
		case "==>":
			return &Val{typ: tBool, c: []string{imp(v.formula(x.L), v.formula(x.R))}}
		}
		l, r := v.eval(x.L), v.eval(x.R)
		// floats: numeric literals become IEEE literals of the other operand's type; comparisons are Go's (fp.eq, fp.lt ...)
		if l.typ != nil && isFloat(l.typ) || r.typ != nil && isFloat(r.typ) {
			ft := l.typ
			if ft == nil || !isFloat(ft) {
				ft = r.typ
			}
			if n, ok := x.L.(*ENum); ok {
				l = &Val{typ: ft, c: []string{fpLit(float64(n.V), ft)}}
			}
			if n, ok := x.R.(*ENum); ok {
				r = &Val{typ: ft, c: []string{fpLit(float64(n.V), ft)}}
			}
			if n, ok := x.L.(*EFloat); ok {
				l = &Val{typ: ft, c: []string{fpLit(n.V, ft)}}
			}
			if n, ok := x.R.(*EFloat); ok {
				r = &Val{typ: ft, c: []string{fpLit(n.V, ft)}}
			}
			if op, ok := map[string]string{"==": "fp.eq", "<": "fp.lt", "<=": "fp.leq", ">": "fp.gt", ">=": "fp.geq"}[x.Op]; ok {
				return &Val{typ: tBool, c: []string{app(op, l.c[0], r.c[0])}}
			}
			if x.Op == "!=" {
				return &Val{typ: tBool, c: []string{not(app("fp.eq", l.c[0], r.c[0]))}}
			}
			if op, ok := map[string]string{"+": "fp.add", "-": "fp.sub", "*": "fp.mul", "/": "fp.div"}[x.Op]; ok {
				return &Val{typ: ft, c: []string{app(op, "RNE", l.c[0], r.c[0])}}
			}
		}
		switch x.Op {
		case "==", "!=":
			var f string
			if ls, ok := x.R.(*EStr); ok && l.typ != nil && isString(l.typ) {
				f = v.e.strEqLit(l.c[0], ls.S)
			} else if ls, ok := x.L.(*EStr); ok && r.typ != nil && isString(r.typ) {
				f = v.e.strEqLit(r.c[0], ls.S)
			} else {
				f = v.equal(l, r)
			}
			if x.Op == "!=" {
				f = not(f)
			}
			return &Val{typ: tBool, c: []string{f}}
		case "<", "<=", ">", ">=":
			return &Val{typ: tBool, c: []string{app(x.Op, l.c[0], r.c[0])}}
		case "+", "-", "*":
			if x.Op == "+" && l.typ != nil && isString(l.typ) {
				return &Val{typ: l.typ, c: []string{e.concat(l.c[0], r.c[0])}}
			}
			return &Val{typ: tInt, c: []string{app(x.Op, l.c[0], r.c[0])}}
		case "/":
			return &Val{typ: tInt, c: []string{app("div", l.c[0], r.c[0])}}
		case "%":
			return &Val{typ: tInt, c: []string{app("mod", l.c[0], r.c[0])}}
		}
	}
	panic(fmt.Sprintf("contract: cannot evaluate %#v", x))
}

func (v *Env) equal(l, r *Val) string {
	if l.typ == nil {
		l, r = r, l
	}
	if r.typ == nil { // comparison with nil
		switch l.typ.Underlying().(type) {
		case *types.Interface:
			return eq(l.c[0], "0")
		default:
			return eq(l.c[0], "null")
		}
	}
	var eqs []string
	if len(l.c) != len(r.c) {
		panic(fmt.Sprintf("contract: == between values of different shapes (%v vs %v)", l.typ, r.typ))
	}
	for k := range l.c {
		eqs = append(eqs, eq(l.c[k], r.c[k]))
	}
	return and(eqs...)
}

// sel resolves base.name through pointers and embedded structs.
func (v *Env) sel(base *Val, name string) *Val {
	e := v.e
	t := base.typ
	obj, path, _ := types.LookupFieldOrMethod(t, true, nil, name)
	if obj == nil {
		// unexported field from another package: retry with the defining package
		if n, ok := derefNamed(t); ok {
			obj, path, _ = types.LookupFieldOrMethod(t, true, n.Obj().Pkg(), name)
		}
	}
	fld, ok := obj.(*types.Var)
	if !ok {
		panic("contract: no field " + name + " in " + t.String())
	}
	_ = fld
	cur := base
	var ref string
	curT := t
	inHeap := false
	for _, idx := range path {
		if pt, ok := curT.Underlying().(*types.Pointer); ok {
			if inHeap {
				cur = e.loadAt(v.st, ref, curT)
			}
			ref = cur.c[0]
			curT = pt.Elem()
			inHeap = true
		}
		s := curT.Underlying().(*types.Struct)
		f := s.Field(idx)
		if inHeap {
			if _, ok := isStruct(f.Type()); ok {
				ref = app("emb", ref, num(int64(idx)))
				curT = f.Type()
				continue
			}
			cur = v.heapVal(e.loadLoc(v.st, &Loc{field: true, ref: ref, skey: structKey(curT), fname: f.Name(), typ: f.Type()}))
			curT = f.Type()
			inHeap = false
			continue
		}
		lo, hi := fieldRange(s, idx)
		cur = &Val{typ: f.Type(), c: cur.c[lo:hi]}
		curT = f.Type()
	}
	if inHeap {
		return v.heapVal(e.loadAt(v.st, ref, curT))
	}
	return cur
}

func derefNamed(t types.Type) (*types.Named, bool) {
	if p, ok := t.Underlying().(*types.Pointer); ok {
		t = p.Elem()
	}
	n, ok := t.(*types.Named)
	return n, ok
}

func (v *Env) ifaceUF(x *ECall) (*Val, bool) {
	found := false
	for k := range v.e.db.pureIface {
		if strings.HasSuffix(k, "."+x.Fn) {
			found = true
		}
	}
	if !found {
		return nil, false
	}
	recv := v.eval(x.Args[0])
	if recv.typ == nil {
		return nil, false
	}
	obj, _, _ := types.LookupFieldOrMethod(recv.typ, true, nil, x.Fn)
	m, ok := obj.(*types.Func)
	if !ok {
		return nil, false
	}
	key := ifaceMethodKey(m)
	if !v.e.db.isPureIface(m) {
		return nil, false
	}
	args := []*Val{recv}
	for _, a := range x.Args[1:] {
		args = append(args, v.eval(a))
	}
	res := m.Type().(*types.Signature).Results()
	var rt types.Type = res
	if res.Len() == 1 {
		rt = res.At(0).Type()
	}
	return v.e.ufTerm("iface."+key, args, rt), true
}

// inferKeySort: when the bound variable of a quantifier is used as a map key, the quantifier ranges over that map's
// key sort (so the same contract works for every instantiation of a generic function).
func (v *Env) inferKeySort(x Expr, name string) (sort string) {
	defer func() {
		if recover() != nil {
			sort = ""
		}
	}()
	isVar := func(e Expr) bool {
		id, ok := e.(*EIdent)
		return ok && id.Name == name
	}
	var walk func(e Expr) string
	walk = func(e Expr) string {
		switch e := e.(type) {
		case *ECall:
			if e.Fn == "has" && len(e.Args) == 2 && isVar(e.Args[1]) {
				if mi := mapInfoOf(v.eval(e.Args[0]).typ); mi.ok {
					return mi.ksort
				}
			}
			for _, a := range e.Args {
				if s := walk(a); s != "" {
					return s
				}
			}
		case *EIndex:
			if isVar(e.I) {
				if b := v.eval(e.X); b.typ != nil {
					if mi := mapInfoOf(b.typ); mi.ok {
						return mi.ksort
					}
				}
			}
			if s := walk(e.X); s != "" {
				return s
			}
			return walk(e.I)
		case *ESel:
			return walk(e.X)
		case *EUnary:
			return walk(e.X)
		case *EBinary:
			if s := walk(e.L); s != "" {
				return s
			}
			return walk(e.R)
		case *EOld:
			return walk(e.X)
		case *EForall:
			if e.Var != name {
				return walk(e.Body)
			}
		}
		return ""
	}
	return walk(x)
}

// applyNamed: f(args) in a contract where f is (a) a function-typed parameter / captured variable declared
// `callback f pure`, or (b) a module function whose contract says `functional`.
func (v *Env) applyNamed(x *ECall) *Val {
	e := v.e
	// (a) pure callback of the function under verification (or of its parent, for closures)
	isPure := false
	for fn := e.fn; fn != nil; fn = fn.Parent() {
		if c := e.db.byFunc[fname(fn)]; c != nil && c.PureCallbacks[x.Fn] {
			isPure = true
		}
	}
	if isPure {
		var fv *Val
		if pv, ok := v.vars[x.Fn]; ok {
			fv = pv
		} else if p, ok := e.freeRef[x.Fn]; ok {
			fv = e.loadAt(v.st, p.c[0], p.typ.Underlying().(*types.Pointer).Elem())
		}
		if fv != nil {
			if sig, ok := fv.typ.Underlying().(*types.Signature); ok {
				as := []*Val{fv}
				for _, a := range x.Args {
					as = append(as, v.eval(a))
				}
				var rt types.Type = sig.Results()
				if sig.Results().Len() == 1 {
					rt = sig.Results().At(0).Type()
				}
				return e.ufTerm("cb."+x.Fn, as, rt)
			}
		}
	}
	// (b) functional module function, by short name within the package of the function under verification
	if e.module != nil {
		for name, c := range e.db.byFunc {
			if !c.Functional {
				continue
			}
			short := name
			if i := strings.LastIndex(short, "."); i >= 0 {
				short = short[i+1:]
			}
			if short != x.Fn {
				continue
			}
			fn := e.module.Funcs[name]
			if fn == nil {
				continue
			}
			var as []*Val
			for _, a := range x.Args {
				as = append(as, v.eval(a))
			}
			res := fn.Signature.Results()
			var rt types.Type = res
			if res.Len() == 1 {
				rt = res.At(0).Type()
			}
			return e.ufTerm("fn."+name, as, rt)
		}
	}
	return nil
}

// heapVal: a value a contract reads from the heap is bit-valid and, if it is a reference, designates an object that
// exists in the state it is read from (same facts the encoder states for loads in the code).
func (v *Env) heapVal(x *Val) *Val {
	e := v.e
	x = e.wfLoaded(x)
	if len(v.bound) > 0 || x == nil {
		return x
	}
	key := fmt.Sprintf("exists:%d:%s", v.st.epoch, strings.Join(x.c, ","))
	if e.declared[key] {
		return x
	}
	e.declared[key] = true
	for k, l := range leaves(x.typ) {
		if l.sort != "Ref" || k >= len(x.c) {
			continue
		}
		wm, cw := e.birthOf(x.c[k], v.st)
		for _, r := range []string{x.c[k], owner(x.c[k]), owner(owner(x.c[k]))} {
			e.assume(fmt.Sprintf("(=> ((_ is obj) %s) (or (<= (oid %s) %s) (and (> (oid %s) (+ |alloc!0| 1000000000)) (<= (oid %s) %s))))", r, r, wm, r, r, cw))
		}
	}
	return x
}
