package main

import (
	"bufio"
	"go/types"

	"golang.org/x/tools/go/ssa"
	"fmt"
	"os"
	"strconv"
	"strings"
	"unicode"
)

// ---------- contract file ----------

type Clause struct {
	E    Expr
	Tags []string // property ids that own this clause; empty = every property that lists the function
	Src  string
	File string
	Line int
}

type LoopSpec struct {
	Invariants []*Clause
	Decreases  *Clause
	Steps      []*Clause // loop N: step EXPR - must hold at every back edge; thisiter("site#n") = the site was executed in this iteration
}

type Contract struct {
	Func        string
	Requires    []*Clause
	Ensures     []*Clause
	Loops       map[int]*LoopSpec
	GhostDefs   []*Clause            // ghostdef: definition of a ghost spec function, assumed at entry
	Det         bool                 // `deterministic`: results and written memory are a function of the argument VALUES (checked: #frame:det)
	OrderFree   bool                 // `orderfree`: may range over a map; its own contract carries the order-independence argument
	DetCallbacks map[string]bool     // callback NAME deterministic
	Pure        bool                 // callee does not modify the heap (assumed for externals, checked by #frame for module functions)
	Trusted     bool                 // contract is assumed, body not verified (listed in evidence)
	Mode        string               // "", "bitvector", "fp"
	Modifies    []string             // frame: array-name patterns this function may write; nil = inferred
	HasModifies bool
	Callback    map[string][]*Clause // function-typed parameter -> ensures assumed after each call
	CallbackPreserves map[string][]string
	CallbackPre map[string][]*Clause // function-typed parameter -> obligations before each call
	Asserts     []CallAssert
	Locals      map[string]string // local alias -> "name#ordinal"
	MayPanic    bool
	Preserves   []string          // array-name prefixes that a call to this function leaves unchanged even though its effect is "everything"
	SortedBy    []string          // closure passed to sort.Slice: captured slice name [, string field]: less(i,j) <=> key(i) < key(j)
	SortedByTags []string
	Functional  bool              // calls (including recursive ones) are an uninterpreted function of the argument values
	PureCallbacks map[string]bool // function-typed parameters assumed pure: calls are uninterpreted functions of their arguments
	NoWrite     []*Clause         // struct types none of whose fields the body may store to (unless the object is its own allocation)
	NoTypeInv   bool              // the method neither needs nor re-establishes the receiver's type invariant (String(), ...)
	NilableRecv bool              // the method tolerates a nil receiver (no call-site obligation, no entry assumption)
	Nilable     map[string]bool   // parameters of func/interface type that may be nil
	File        string
	Line        int
}

type CallAssert struct {
	Callee  string
	Ordinal int
	C       *Clause
}

type ContractDB struct {
	byFunc map[string]*Contract
	preds  map[string]*PredDef
	files  []string
	axioms []*Clause // definitional axioms of spec functions (listed in evidence)
	recvOnly    []string        // receiver-type prefixes "(*pkg.T)": methods modify only the receiver's own struct fields
	pureFns     map[string]bool // dependency functions (by ssa String()) that neither modify go-restli objects nor depend on anything but their arguments
	closedTerms map[string]bool // "pkg.Var": evaluated by running the real initialiser
	effectFns  map[string]bool // dependency functions with externally visible effects: every call needs a call-site assert
	effectPkgs map[string]bool // packages all of whose functions are effectful unless listed as observers
	observers  map[string]bool
	ifacePreserves map[string][]string
	nonnilIface map[string]bool
	pureIface  map[string]bool // "pkg.Iface.Method": assumed pure, modelled as an uninterpreted function of receiver and arguments
	nonnilFields map[string]bool
	pureFields map[string]bool // "pkg.Struct.field": function-typed field whose values are pure functions
	typeinv map[string][]*Clause // receiver prefix "(*pkg.T)" -> invariant over `self`, required and ensured by every method
	specFn map[string]*SpecFn
	detIface map[string]bool // iface pkg.I.M: deterministic
	sealed   map[string]string // sealed interface -> its only implementation
	nonnilFns map[string]bool  // purefn name!: result never nil
}

type SpecFn struct {
	Name   string
	Params []string // sorts
	Result string   // sort
}

type PredDef struct {
	Name   string
	Params []string
	Body   Expr
}

func newContractDB() *ContractDB {
	return &ContractDB{byFunc: map[string]*Contract{}, preds: map[string]*PredDef{}, specFn: map[string]*SpecFn{}, detIface: map[string]bool{}, sealed: map[string]string{}, nonnilFns: map[string]bool{}, typeinv: map[string][]*Clause{}, pureFields: map[string]bool{}, nonnilFields: map[string]bool{}, pureIface: map[string]bool{}, nonnilIface: map[string]bool{}, ifacePreserves: map[string][]string{}, effectFns: map[string]bool{}, closedTerms: map[string]bool{}, pureFns: map[string]bool{}, effectPkgs: map[string]bool{}, observers: map[string]bool{}}
}

func splitTags(kw string) (string, []string) {
	i := strings.Index(kw, "[")
	if i < 0 || !strings.HasSuffix(kw, "]") {
		return kw, nil
	}
	var tags []string
	for _, t := range strings.Split(kw[i+1:len(kw)-1], ",") {
		if t = strings.TrimSpace(t); t != "" {
			tags = append(tags, t)
		}
	}
	return kw[:i], tags
}

// loadContracts reads //@ lines of one file into db.
func (db *ContractDB) load(path string) error {
	f, err := os.Open(path)
	if err != nil {
		return err
	}
	defer f.Close()
	db.files = append(db.files, path)
	var cur *Contract
	sc := bufio.NewScanner(f)
	sc.Buffer(make([]byte, 1<<20), 1<<20)
	ln := 0
	pending := ""
	for sc.Scan() {
		ln++
		line := strings.TrimSpace(sc.Text())
		if !strings.HasPrefix(line, "//@") {
			continue
		}
		line = strings.TrimSpace(strings.TrimPrefix(line, "//@"))
		if i := strings.Index(line, " //"); i >= 0 {
			line = strings.TrimSpace(line[:i])
		}
		if strings.HasSuffix(line, "\\") {
			pending += strings.TrimSuffix(line, "\\") + " "
			continue
		}
		line = pending + line
		pending = ""
		if line == "" {
			continue
		}
		kw, rest, _ := strings.Cut(line, " ")
		rest = strings.TrimSpace(rest)
		kw, tags := splitTags(kw)
		parse := func(s string) *Clause {
			e, err := parseExpr(s)
			if err != nil {
				panic(fmt.Sprintf("%s:%d: %v in %q", path, ln, err, s))
			}
			return &Clause{E: e, Tags: tags, Src: s, File: path, Line: ln}
		}
		need := func() {
			if cur == nil {
				panic(fmt.Sprintf("%s:%d: %q outside a func block", path, ln, kw))
			}
		}
		switch kw {
		case "func", "extern":
			if ex := db.byFunc[rest]; ex != nil {
				cur = ex // several blocks (one per property file) extend the same contract
				break
			}
			cur = &Contract{Func: rest, Loops: map[int]*LoopSpec{}, Callback: map[string][]*Clause{}, CallbackPre: map[string][]*Clause{}, Locals: map[string]string{}, File: path, Line: ln}
			cur.Trusted = kw == "extern"
			db.byFunc[rest] = cur
		case "pred":
			head, body, ok := strings.Cut(rest, "=")
			if !ok {
				panic(fmt.Sprintf("%s:%d: bad pred", path, ln))
			}
			name, params, _ := strings.Cut(strings.TrimSpace(head), "(")
			params = strings.TrimSuffix(strings.TrimSpace(params), ")")
			pd := &PredDef{Name: strings.TrimSpace(name)}
			for _, p := range strings.Split(params, ",") {
				if p = strings.TrimSpace(p); p != "" {
					pd.Params = append(pd.Params, strings.Fields(p)[0])
				}
			}
			e, err := parseExpr(strings.TrimSpace(body))
			if err != nil {
				panic(fmt.Sprintf("%s:%d: %v", path, ln, err))
			}
			pd.Body = e
			db.preds[pd.Name] = pd
		case "spec":
			// spec name(Sort, Sort) Sort     -- uninterpreted spec function
			name, tail, _ := strings.Cut(rest, "(")
			ps, res, _ := strings.Cut(tail, ")")
			sf := &SpecFn{Name: strings.TrimSpace(name), Result: strings.TrimSpace(res)}
			for _, p := range strings.Split(ps, ",") {
				if p = strings.TrimSpace(p); p != "" {
					sf.Params = append(sf.Params, p)
				}
			}
			db.specFn[sf.Name] = sf
		case "recvonly":
			db.recvOnly = append(db.recvOnly, strings.Fields(rest)...)
		case "purefn":
			for _, n := range strings.Fields(rest) {
				if strings.HasSuffix(n, "!") { // name! : the result is never nil
					n = strings.TrimSuffix(n, "!")
					db.nonnilFns[n] = true
				}
				db.pureFns[n] = true
			}
		case "sealed":
			// sealed pkg.Iface: *pkg.T   -- the interface has an unexported method and T is its only implementation
			nm, impl, ok := strings.Cut(rest, ":")
			if !ok {
				panic(fmt.Sprintf("%s:%d: sealed pkg.Iface: *pkg.T", path, ln))
			}
			db.sealed[strings.TrimSpace(nm)] = strings.TrimSpace(impl)
		case "closedterm":
			for _, n := range strings.Fields(rest) {
				db.closedTerms[n] = true
			}
		case "effect":
			for _, n := range strings.Fields(rest) {
				db.effectFns[n] = true
			}
		case "effectpkg":
			for _, n := range strings.Fields(rest) {
				db.effectPkgs[n] = true
			}
		case "observer":
			for _, n := range strings.Fields(rest) {
				db.observers[n] = true
			}
		case "iface":
			// iface pkg.Iface.Method: pure
			nm, what, _ := strings.Cut(rest, ":")
			what = strings.TrimSpace(what)
			if what == "deterministic" {
				db.detIface[strings.TrimSpace(nm)] = true
				break
			}
			if what != "pure" && what != "pure nonnil" && !strings.HasPrefix(what, "preserves ") {
				panic(fmt.Sprintf("%s:%d: iface supports only pure / pure nonnil", path, ln))
			}
			if strings.HasPrefix(what, "preserves ") {
				k := strings.TrimSpace(nm)
				db.ifacePreserves[k] = append(db.ifacePreserves[k], preservePrefixes(strings.TrimPrefix(what, "preserves "))...)
				break
			}
			db.pureIface[strings.TrimSpace(nm)] = true
			if what == "pure nonnil" {
				db.nonnilIface[strings.TrimSpace(nm)] = true
			}
		case "fieldfn":
			// fieldfn pkg.Struct.field: pure
			nm, what, _ := strings.Cut(rest, ":")
			what = strings.TrimSpace(what)
			if what != "pure" && what != "pure nonnil" {
				panic(fmt.Sprintf("%s:%d: fieldfn supports only pure / pure nonnil", path, ln))
			}
			db.pureFields[strings.TrimSpace(nm)] = true
			if what == "pure nonnil" {
				db.nonnilFields[strings.TrimSpace(nm)] = true
			}
		case "typeinv":
			// typeinv (*pkg.T): expr over self
			recv, ex, ok := strings.Cut(rest, ":")
			if !ok {
				panic(fmt.Sprintf("%s:%d: bad typeinv", path, ln))
			}
			recv = strings.TrimSpace(recv)
			db.typeinv[recv] = append(db.typeinv[recv], parse(strings.TrimSpace(ex)))
		case "axiom":
			db.axioms = append(db.axioms, parse(rest))
		case "requires":
			need()
			cur.Requires = append(cur.Requires, parse(rest))
		case "ensures":
			need()
			cur.Ensures = append(cur.Ensures, parse(rest))
		case "assert":
			need()
			hashAt := strings.Index(rest, "#")
			if hashAt < 0 {
				panic(fmt.Sprintf("%s:%d: assert needs @call NAME#N:", path, ln))
			}
			colon := strings.Index(rest[hashAt:], ":")
			if colon < 0 {
				panic(fmt.Sprintf("%s:%d: assert needs @call NAME#N: expr", path, ln))
			}
			head, ex := rest[:hashAt+colon], rest[hashAt+colon+1:]
			head = strings.TrimSpace(strings.TrimPrefix(strings.TrimSpace(head), "@call"))
			nm, ord, _ := strings.Cut(head, "#")
			n, _ := strconv.Atoi(strings.TrimSpace(ord))
			if strings.TrimSpace(ord) == "*" {
				n = -1
			}
			cur.Asserts = append(cur.Asserts, CallAssert{strings.TrimSpace(nm), n, parse(strings.TrimSpace(ex))})
		case "pure":
			need()
			cur.Pure = true
		case "ghostdef":
			need()
			cur.GhostDefs = append(cur.GhostDefs, parse(rest))
		case "deterministic":
			need()
			cur.Det = true
		case "orderfree":
			need()
			cur.OrderFree = true
		case "may_panic":
			need()
			cur.MayPanic = true
		case "preserves":
			need()
			cur.Preserves = append(cur.Preserves, preservePrefixes(rest)...)
		case "sortedby":
			need()
			cur.SortedBy = strings.Fields(rest)
			cur.SortedByTags = tags
		case "functional":
			need()
			cur.Functional = true
		case "nowrite":
			need()
			cur.NoWrite = append(cur.NoWrite, &Clause{Tags: tags, Src: rest, File: path, Line: ln})
		case "no_typeinv":
			need()
			cur.NoTypeInv = true
		case "nilable_receiver":
			need()
			cur.NilableRecv = true
		case "nilable":
			need()
			if cur.Nilable == nil {
				cur.Nilable = map[string]bool{}
			}
			for _, n := range strings.Split(rest, ",") {
				cur.Nilable[strings.TrimSpace(n)] = true
			}
		case "mode":
			need()
			cur.Mode = rest
		case "modifies":
			need()
			cur.HasModifies = true
			for _, m := range strings.Split(rest, ",") {
				if m = strings.TrimSpace(m); m != "" && m != "nothing" {
					cur.Modifies = append(cur.Modifies, m)
				}
			}
		case "local":
			need()
			// local alias = name#ordinal
			a, b, _ := strings.Cut(rest, "=")
			cur.Locals[strings.TrimSpace(a)] = strings.TrimSpace(b)
		case "callback":
			need()
			name, tail, _ := strings.Cut(rest, " ")
			k, ex, _ := strings.Cut(strings.TrimSpace(tail), " ")
			k, tags = splitTags(k)
			if k == "pure" {
				ex = "true"
			}
			switch k {
			case "ensures":
				cur.Callback[name] = append(cur.Callback[name], parse(ex))
			case "requires":
				cur.CallbackPre[name] = append(cur.CallbackPre[name], parse(ex))
			case "deterministic":
				if cur.DetCallbacks == nil {
					cur.DetCallbacks = map[string]bool{}
				}
				cur.DetCallbacks[name] = true
			case "pure":
				if cur.PureCallbacks == nil {
					cur.PureCallbacks = map[string]bool{}
				}
				cur.PureCallbacks[name] = true
			case "preserves":
				if cur.CallbackPreserves == nil {
					cur.CallbackPreserves = map[string][]string{}
				}
				cur.CallbackPreserves[name] = append(cur.CallbackPreserves[name], preservePrefixes(ex)...)
			default:
				panic(fmt.Sprintf("%s:%d: callback supports requires/ensures", path, ln))
			}
		case "loop":
			need()
			nstr, tail, _ := strings.Cut(rest, ":")
			n, err := strconv.Atoi(strings.TrimSpace(nstr))
			if err != nil {
				panic(fmt.Sprintf("%s:%d: bad loop ordinal", path, ln))
			}
			tail = strings.TrimSpace(tail)
			k, e, _ := strings.Cut(tail, " ")
			k, tags = splitTags(k)
			ls := cur.Loops[n]
			if ls == nil {
				ls = &LoopSpec{}
				cur.Loops[n] = ls
			}
			switch k {
			case "invariant":
				ls.Invariants = append(ls.Invariants, parse(e))
			case "decreases":
				ls.Decreases = parse(e)
			case "step":
				ls.Steps = append(ls.Steps, parse(e))
			default:
				panic(fmt.Sprintf("%s:%d: loop supports invariant/decreases/step", path, ln))
			}
		default:
			panic(fmt.Sprintf("%s:%d: unknown contract keyword %q", path, ln, kw))
		}
	}
	return nil
}

// recvOnlyType: fn is a method of a dependency type whose methods are declared to modify only the receiver.
func (db *ContractDB) recvOnlyType(fn *ssa.Function) types.Type {
	if fn.Signature.Recv() == nil {
		return nil
	}
	s := fn.String()
	for _, p := range db.recvOnly {
		if strings.HasPrefix(s, p+".") {
			t := fn.Signature.Recv().Type()
			if pt, ok := t.Underlying().(*types.Pointer); ok {
				return pt.Elem()
			}
			return t
		}
	}
	return nil
}

// ifacePreservesFor: the preserves declaration of an interface method ("pkg.Iface.Method" or "pkg.Iface.*").
func (db *ContractDB) ifacePreservesFor(m *types.Func) []string {
	key := ifaceMethodKey(m)
	var pp []string
	pp = append(pp, db.ifacePreserves[key]...)
	if i := strings.LastIndex(key, "."); i > 0 {
		pp = append(pp, db.ifacePreserves[key[:i]+".*"]...)
	}
	return pp
}

// isPureIface: the interface method is declared pure ("pkg.Iface.Method" or "pkg.Iface.*").
func (db *ContractDB) isPureIface(m *types.Func) bool {
	key := ifaceMethodKey(m)
	if db.pureIface[key] {
		return true
	}
	if i := strings.LastIndex(key, "."); i > 0 {
		return db.pureIface[key[:i]+".*"]
	}
	return false
}

// preservePrefixes: "pkg.T" -> fields of struct T; "cells:T" -> cells of type T; "map:K=>V" -> a map type's arrays.
func preservePrefixes(s string) []string {
	var out []string
	for _, t := range strings.Fields(s) {
		switch {
		case strings.HasPrefix(t, "cells:"):
			out = append(out, "C|"+strings.TrimPrefix(t, "cells:")+"|")
		case strings.HasPrefix(t, "map:"):
			k := strings.TrimPrefix(t, "map:")
			out = append(out, "MH|"+k, "MV|"+k)
		default:
			out = append(out, "F|"+t+"|")
		}
	}
	return out
}

// typeInvFor returns the type invariants that apply to fn (a method whose receiver type has a typeinv).
func (db *ContractDB) typeInvFor(name string) []*Clause {
	if !strings.HasPrefix(name, "(") {
		return nil
	}
	if c := db.byFunc[name]; c != nil && c.NoTypeInv {
		return nil
	}
	i := strings.Index(name, ").")
	if i < 0 {
		return nil
	}
	return db.typeinv[name[:i+1]]
}

// ---------- expressions ----------

type Expr interface{}

type (
	ENum    struct{ V int64 }
	EStr    struct{ S string }
	EBool   struct{ B bool }
	EIdent  struct{ Name string }
	ESel    struct{ X Expr; Name string }
	EIndex  struct{ X, I Expr }
	ESlice  struct{ X, Lo, Hi Expr }
	ECall   struct{ Fn string; Args []Expr }
	EUnary  struct{ Op string; X Expr }
	EBinary struct{ Op string; L, R Expr }
	EForall struct{ Var string; Body Expr; Sort string }
	EFloat  struct{ V float64 }
	EExists struct{ Var string; Body Expr; Sort string; Witness Expr }
	EOld    struct{ X Expr }
)

type tok struct {
	k string // num str ident op eof char
	s string
}

func lex(s string) ([]tok, error) {
	var ts []tok
	i := 0
	for i < len(s) {
		c := s[i]
		switch {
		case c == ' ' || c == '\t':
			i++
		case unicode.IsDigit(rune(c)):
			j := i
			for j < len(s) && (unicode.IsDigit(rune(s[j])) || s[j] == 'x' || (s[j] >= 'a' && s[j] <= 'f') || (s[j] >= 'A' && s[j] <= 'F')) {
				j++
			}
			if j+1 < len(s) && s[j] == '.' && unicode.IsDigit(rune(s[j+1])) && !strings.HasPrefix(s[i:j], "0x") {
				j++
				for j < len(s) && unicode.IsDigit(rune(s[j])) {
					j++
				}
				ts = append(ts, tok{"fnum", s[i:j]})
				i = j
				continue
			}
			ts = append(ts, tok{"num", s[i:j]})
			i = j
		case unicode.IsLetter(rune(c)) || c == '_' || c == '$':
			j := i
			for j < len(s) && (unicode.IsLetter(rune(s[j])) || unicode.IsDigit(rune(s[j])) || s[j] == '_' || s[j] == '$') {
				j++
			}
			ts = append(ts, tok{"ident", s[i:j]})
			i = j
		case c == '\'':
			// char literal
			j := i + 1
			var v byte
			if s[j] == '\\' {
				switch s[j+1] {
				case 'n':
					v = '\n'
				case '\\':
					v = '\\'
				case '\'':
					v = '\''
				default:
					return nil, fmt.Errorf("bad escape")
				}
				j += 2
			} else {
				v = s[j]
				j++
			}
			if s[j] != '\'' {
				return nil, fmt.Errorf("bad char literal")
			}
			ts = append(ts, tok{"num", strconv.Itoa(int(v))})
			i = j + 1
		case c == '"':
			j := i + 1
			var sb strings.Builder
			for j < len(s) && s[j] != '"' {
				if s[j] == '\\' && j+1 < len(s) && (s[j+1] == '"' || s[j+1] == '\\') {
					j++ // \" and \\ stand for the quote and the backslash
				}
				sb.WriteByte(s[j])
				j++
			}
			ts = append(ts, tok{"str", sb.String()})
			i = j + 1
		default:
			for _, op := range []string{"==>", "&&", "||", "==", "!=", "<=", ">=", "<", ">", "+", "-", "*", "/", "%", "!", "(", ")", "[", "]", ".", ",", ":"} {
				if strings.HasPrefix(s[i:], op) {
					ts = append(ts, tok{"op", op})
					i += len(op)
					goto next
				}
			}
			return nil, fmt.Errorf("unexpected character %q", c)
		next:
		}
	}
	ts = append(ts, tok{"eof", ""})
	return ts, nil
}

type parser struct {
	ts []tok
	p  int
}

func parseExpr(s string) (e Expr, err error) {
	ts, err := lex(s)
	if err != nil {
		return nil, err
	}
	defer func() {
		if r := recover(); r != nil {
			err = fmt.Errorf("%v", r)
		}
	}()
	p := &parser{ts: ts}
	e = p.impl()
	if p.peek().k != "eof" {
		panic(fmt.Sprintf("trailing tokens at %v", p.peek()))
	}
	return e, nil
}

func (p *parser) peek() tok { return p.ts[p.p] }
func (p *parser) next() tok  { t := p.ts[p.p]; p.p++; return t }
func (p *parser) isOp(s string) bool {
	t := p.peek()
	return t.k == "op" && t.s == s
}
func (p *parser) expect(s string) {
	if !p.isOp(s) {
		panic(fmt.Sprintf("expected %q got %v", s, p.peek()))
	}
	p.next()
}

func (p *parser) impl() Expr {
	l := p.or()
	if p.isOp("==>") {
		p.next()
		return &EBinary{"==>", l, p.impl()}
	}
	return l
}
func (p *parser) or() Expr {
	l := p.and()
	for p.isOp("||") {
		p.next()
		l = &EBinary{"||", l, p.and()}
	}
	return l
}
func (p *parser) and() Expr {
	l := p.cmp()
	for p.isOp("&&") {
		p.next()
		l = &EBinary{"&&", l, p.cmp()}
	}
	return l
}
func (p *parser) cmp() Expr {
	l := p.add()
	var res Expr
	for {
		t := p.peek()
		if t.k != "op" || !(t.s == "==" || t.s == "!=" || t.s == "<" || t.s == "<=" || t.s == ">" || t.s == ">=") {
			break
		}
		p.next()
		r := p.add()
		c := &EBinary{t.s, l, r}
		if res == nil {
			res = c
		} else {
			res = &EBinary{"&&", res, c}
		}
		l = r
	}
	if res != nil {
		return res
	}
	return l
}
func (p *parser) add() Expr {
	l := p.mul()
	for p.isOp("+") || p.isOp("-") {
		op := p.next().s
		l = &EBinary{op, l, p.mul()}
	}
	return l
}
func (p *parser) mul() Expr {
	l := p.unary()
	for p.isOp("*") || p.isOp("/") || p.isOp("%") {
		op := p.next().s
		l = &EBinary{op, l, p.unary()}
	}
	return l
}
func (p *parser) unary() Expr {
	if p.isOp("!") || p.isOp("-") {
		op := p.next().s
		return &EUnary{op, p.unary()}
	}
	return p.postfix()
}
func (p *parser) postfix() Expr {
	e := p.primary()
	for {
		switch {
		case p.isOp("."):
			p.next()
			e = &ESel{e, p.next().s}
		case p.isOp("["):
			p.next()
			if p.isOp(":") {
				p.next()
				var hi Expr
				if !p.isOp("]") {
					hi = p.impl()
				}
				p.expect("]")
				e = &ESlice{e, nil, hi}
				continue
			}
			i := p.impl()
			if p.isOp(":") {
				p.next()
				var hi Expr
				if !p.isOp("]") {
					hi = p.impl()
				}
				p.expect("]")
				e = &ESlice{e, i, hi}
				continue
			}
			p.expect("]")
			e = &EIndex{e, i}
		default:
			return e
		}
	}
}
func (p *parser) primary() Expr {
	t := p.next()
	switch t.k {
	case "num":
		v, err := strconv.ParseInt(t.s, 0, 64)
		if err != nil {
			panic(err)
		}
		return &ENum{v}
	case "fnum":
		f, err := strconv.ParseFloat(t.s, 64)
		if err != nil {
			panic(err)
		}
		return &EFloat{f}
	case "str":
		return &EStr{t.s}
	case "ident":
		switch t.s {
		case "true":
			return &EBool{true}
		case "false":
			return &EBool{false}
		case "forall":
			v := p.next().s
			p.expect(":")
			return &EForall{v, p.impl(), "Int"}
		case "forallS":
			v := p.next().s
			p.expect(":")
			return &EForall{v, p.impl(), "Str"}
		case "existsStr":
			v := p.next().s
			var w Expr
			if t := p.peek(); t.k == "ident" && t.s == "witness" {
				p.next()
				w = p.add()
			}
			p.expect(":")
			return &EExists{v, p.impl(), "Str", w}
		case "exists":
			v := p.next().s
			var w Expr
			if t := p.peek(); t.k == "ident" && t.s == "witness" {
				p.next()
				w = p.add()
			}
			p.expect(":")
			return &EExists{v, p.impl(), "Int", w}
		case "old":
			p.expect("(")
			e := p.impl()
			p.expect(")")
			return &EOld{e}
		}
		if p.isOp("(") {
			p.next()
			var args []Expr
			for !p.isOp(")") {
				args = append(args, p.impl())
				if p.isOp(",") {
					p.next()
				}
			}
			p.expect(")")
			return &ECall{t.s, args}
		}
		return &EIdent{t.s}
	case "op":
		if t.s == "(" {
			e := p.impl()
			p.expect(")")
			return e
		}
	}
	panic(fmt.Sprintf("unexpected token %v", t))
}
