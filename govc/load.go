package main

import (
	"encoding/json"
	"fmt"
	"os"
	"path/filepath"
	"sort"
	"strings"
	"time"

	"golang.org/x/tools/go/packages"
	"golang.org/x/tools/go/ssa"
	"golang.org/x/tools/go/ssa/ssautil"
)

type Module struct {
	Name     string // "v2" or "root"
	Dir      string
	Prog     *ssa.Program
	SPkgs    []*ssa.Package
	Pkgs     []*packages.Package
	Funcs    map[string]*ssa.Function
	DB       *ContractDB
	LoadTime time.Duration
	closed      map[string]json.RawMessage
	closedTried map[string]bool
}

const verifRoot = "/verif"

// loadModule type-checks the named packages of one module from the files on disk (with -tags verif), builds SSA and
// reads every contract file that sits beside the loaded code plus the external specs under /verif/contracts.
func loadModule(name, dir string, patterns []string) (*Module, error) {
	t0 := time.Now()
	cfg := &packages.Config{
		Mode:       packages.LoadAllSyntax,
		Dir:        dir,
		BuildFlags: []string{"-tags=verif"},
		Env:        append(os.Environ(), "GOFLAGS=-mod=mod", "GOPROXY=off", "GOSUMDB=off", "GOTOOLCHAIN=local"),
	}
	pkgs, err := packages.Load(cfg, patterns...)
	if err != nil {
		return nil, err
	}
	nerr := 0
	packages.Visit(pkgs, nil, func(p *packages.Package) {
		for _, e := range p.Errors {
			fmt.Fprintf(os.Stderr, "load error: %v\n", e)
			nerr++
		}
	})
	if nerr > 0 {
		return nil, fmt.Errorf("%d load errors in %s", nerr, dir)
	}
	prog, _ := ssautil.AllPackages(pkgs, ssa.BareInits|ssa.GlobalDebug)
	prog.Build()
	m := &Module{Name: name, Dir: dir, Prog: prog, Pkgs: pkgs, Funcs: map[string]*ssa.Function{}, DB: newContractDB()}
	// in scope: every package of the go-restli module that was loaded (roots and their in-module dependencies)
	seenDir := map[string]bool{}
	var dirs []string
	for _, sp := range prog.AllPackages() {
		if sp == nil || sp.Pkg == nil || !strings.HasPrefix(sp.Pkg.Path(), modRoot) {
			continue
		}
		m.SPkgs = append(m.SPkgs, sp)
	}
	packages.Visit(pkgs, nil, func(p *packages.Package) {
		if !strings.HasPrefix(p.PkgPath, modRoot) {
			return
		}
		for _, f := range p.GoFiles {
			d := filepath.Dir(f)
			if !seenDir[d] {
				seenDir[d] = true
				dirs = append(dirs, d)
			}
		}
	})
	sort.Strings(dirs)
	for _, fn := range allFunctions(prog, m.SPkgs) {
		m.Funcs[fname(fn)] = fn
	}
	for _, d := range dirs {
		files, _ := filepath.Glob(filepath.Join(d, "verif_contracts*.go"))
		sort.Strings(files)
		for _, f := range files {
			if err := m.DB.loadSafe(f); err != nil {
				return nil, err
			}
		}
	}
	ext, _ := filepath.Glob(filepath.Join(verifRoot, "contracts", "*.spec"))
	sort.Strings(ext)
	for _, f := range ext {
		if err := m.DB.loadSafe(f); err != nil {
			return nil, err
		}
	}
	m.LoadTime = time.Since(t0)
	return m, nil
}

func (db *ContractDB) loadSafe(path string) (err error) {
	defer func() {
		if r := recover(); r != nil {
			err = fmt.Errorf("contract file: %v", r)
		}
	}()
	return db.load(path)
}

// resolve returns the functions matching a FUC pattern: an exact name, or a prefix ending in '*'.
func (m *Module) resolve(pat string) []*ssa.Function {
	var out []*ssa.Function
	if strings.HasSuffix(pat, "*") {
		pre := strings.TrimSuffix(pat, "*")
		for n, f := range m.Funcs {
			if strings.HasPrefix(n, pre) {
				out = append(out, f)
			}
		}
	} else if f := m.Funcs[pat]; f != nil {
		out = append(out, f)
	}
	sort.Slice(out, func(i, j int) bool { return fname(out[i]) < fname(out[j]) })
	return out
}
