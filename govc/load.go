package main

import (
	"os/exec"
	"encoding/json"
	"fmt"
	"os"
	"path/filepath"
	"sort"
	"strings"
	"time"

	"golang.org/x/tools/go/packages"
	"golang.org/x/tools/go/ssa"
	"golang.org/x/tools/go/ssa/ssautil"
)

type Module struct {
	Name     string // "v2" or "root"
	Dir      string
	Prog     *ssa.Program
	SPkgs    []*ssa.Package
	Pkgs     []*packages.Package
	Funcs    map[string]*ssa.Function
	DB       *ContractDB
	LoadTime time.Duration
	closed      map[string]json.RawMessage
	closedTried map[string]bool
}

const verifRoot = "/verif"

// loadModule type-checks the named packages of one module from the files on disk (with -tags verif), builds SSA and
// reads every contract file that sits beside the loaded code plus the external specs under /verif/contracts.
func loadModule(name, dir string, patterns []string, corpus string) (*Module, error) {
	t0 := time.Now()
	cfg := &packages.Config{
		Mode:       packages.LoadAllSyntax,
		Dir:        dir,
		BuildFlags: []string{"-tags=verif"},
		Env:        append(os.Environ(), "GOFLAGS=-mod=mod", "GOPROXY=off", "GOSUMDB=off", "GOTOOLCHAIN=local"),
	}
	if corpus != "" {
		ov, err := generateCorpus(dir, corpus)
		if err != nil {
			return nil, fmt.Errorf("stage G (generator corpus): %v", err)
		}
		cfg.Overlay = ov
	}
	pkgs, err := packages.Load(cfg, patterns...)
	if err != nil {
		return nil, err
	}
	nerr := 0
	packages.Visit(pkgs, nil, func(p *packages.Package) {
		for _, e := range p.Errors {
			fmt.Fprintf(os.Stderr, "load error: %v\n", e)
			nerr++
		}
	})
	if nerr > 0 {
		return nil, fmt.Errorf("%d load errors in %s", nerr, dir)
	}
	prog, _ := ssautil.AllPackages(pkgs, ssa.BareInits|ssa.GlobalDebug)
	prog.Build()
	m := &Module{Name: name, Dir: dir, Prog: prog, Pkgs: pkgs, Funcs: map[string]*ssa.Function{}, DB: newContractDB()}
	// in scope: every package of the go-restli module that was loaded (roots and their in-module dependencies)
	seenDir := map[string]bool{}
	var dirs []string
	for _, sp := range prog.AllPackages() {
		if sp == nil || sp.Pkg == nil || !strings.HasPrefix(sp.Pkg.Path(), modRoot) {
			continue
		}
		m.SPkgs = append(m.SPkgs, sp)
	}
	packages.Visit(pkgs, nil, func(p *packages.Package) {
		if !strings.HasPrefix(p.PkgPath, modRoot) {
			return
		}
		for _, f := range p.GoFiles {
			d := filepath.Dir(f)
			if !seenDir[d] {
				seenDir[d] = true
				dirs = append(dirs, d)
			}
		}
	})
	sort.Strings(dirs)
	for _, fn := range allFunctions(prog, m.SPkgs) {
		m.Funcs[fname(fn)] = fn
	}
	for _, d := range dirs {
		files, _ := filepath.Glob(filepath.Join(d, "verif_contracts*.go"))
		sort.Strings(files)
		for _, f := range files {
			if err := m.DB.loadSafe(f); err != nil {
				return nil, err
			}
		}
	}
	ext, _ := filepath.Glob(filepath.Join(verifRoot, "contracts", "*.spec"))
	sort.Strings(ext)
	for _, f := range ext {
		if err := m.DB.loadSafe(f); err != nil {
			return nil, err
		}
	}
	m.LoadTime = time.Since(t0)
	return m, nil
}

func (db *ContractDB) loadSafe(path string) (err error) {
	defer func() {
		if r := recover(); r != nil {
			err = fmt.Errorf("contract file: %v", r)
		}
	}()
	return db.load(path)
}

// resolve returns the functions matching a FUC pattern: an exact name, or a prefix ending in '*'.
func (m *Module) resolve(pat string) []*ssa.Function {
	var out []*ssa.Function
	if strings.HasSuffix(pat, "*") {
		pre := strings.TrimSuffix(pat, "*")
		for n, f := range m.Funcs {
			if strings.HasPrefix(n, pre) {
				out = append(out, f)
			}
		}
	} else if f := m.Funcs[pat]; f != nil {
		out = append(out, f)
	}
	sort.Slice(out, func(i, j int) bool { return fname(out[i]) < fname(out[j]) })
	return out
}

// generateCorpus (stage G) builds and runs the REAL generator of the module under test (cmd.ReadManifest +
// cmd.GenerateCode, through /verif/gentool) on a corpus manifest, into a temporary directory outside /repo and /verif
// that is removed before returning, and hands the emitted Go files to the loader as an overlay: they appear as the virtual
// package <module>/internal/govccorpus/... without anything being written to the repository.
func generateCorpus(moduleDir, manifest string) (map[string][]byte, error) {
	tmp, err := os.MkdirTemp("", "govc-corpus-*")
	if err != nil {
		return nil, err
	}
	defer os.RemoveAll(tmp)
	tool := filepath.Join(tmp, "gentool")
	out := filepath.Join(tmp, "out")
	os.MkdirAll(tool, 0755)
	os.MkdirAll(out, 0755)
	src, err := os.ReadFile(filepath.Join(verifRoot, "gentool", "main.go"))
	if err != nil {
		return nil, err
	}
	os.WriteFile(filepath.Join(tool, "main.go"), src, 0644)
	gomod := fmt.Sprintf("module gentool\n\ngo 1.18\n\nrequire github.com/PapaCharlie/go-restli/v2 v2.0.0\n\nreplace github.com/PapaCharlie/go-restli/v2 => %s\n", moduleDir)
	os.WriteFile(filepath.Join(tool, "go.mod"), []byte(gomod), 0644)
	if sum, err := os.ReadFile(filepath.Join(moduleDir, "go.sum")); err == nil {
		os.WriteFile(filepath.Join(tool, "go.sum"), sum, 0644)
	}
	cmd := exec.Command("go", "run", ".", manifest, out)
	cmd.Dir = tool
	cmd.Env = append(os.Environ(), "GOFLAGS=-mod=mod", "GOPROXY=off", "GOSUMDB=off", "GOTOOLCHAIN=local")
	if b, err := cmd.CombinedOutput(); err != nil {
		return nil, fmt.Errorf("generator failed: %v\n%s", err, string(b))
	}
	ov := map[string][]byte{}
	err = filepath.Walk(out, func(p string, info os.FileInfo, err error) error {
		if err != nil || info.IsDir() || !strings.HasSuffix(p, ".go") || strings.HasSuffix(p, "_test.gr.go") {
			return err
		}
		rel, _ := filepath.Rel(out, p)
		b, err := os.ReadFile(p)
		if err != nil {
			return err
		}
		ov[filepath.Join(moduleDir, "internal", "govccorpus", rel)] = b
		return nil
	})
	if err != nil {
		return nil, err
	}
	if len(ov) == 0 {
		return nil, fmt.Errorf("the generator emitted no Go file")
	}
	return ov, nil
}
