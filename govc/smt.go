package main

import (
	"bytes"
	"context"
	"fmt"
	"os"
	"os/exec"
	"strings"
	"time"
)

// ---- tiny s-expression helpers ----

func app(op string, args ...string) string { return "(" + op + " " + strings.Join(args, " ") + ")" }
func and(xs ...string) string {
	var ys []string
	for _, x := range xs {
		if x != "true" {
			ys = append(ys, x)
		}
	}
	switch len(ys) {
	case 0:
		return "true"
	case 1:
		return ys[0]
	}
	return app("and", ys...)
}
func or(xs ...string) string {
	switch len(xs) {
	case 0:
		return "false"
	case 1:
		return xs[0]
	}
	return app("or", xs...)
}
func not(x string) string        { return app("not", x) }
func imp(a, b string) string     { return app("=>", a, b) }
func eq(a, b string) string      { return app("=", a, b) }
func sel(a, i string) string     { return app("select", a, i) }
func sto(a, i, v string) string  { return app("store", a, i, v) }
func ite(c, a, b string) string  { return app("ite", c, a, b) }
func num(n int64) string {
	if n < 0 {
		return fmt.Sprintf("(- %d)", -n)
	}
	return fmt.Sprintf("%d", n)
}

type SolverResult struct {
	Solver string
	Status string // unsat | sat | unknown | timeout | error
	Out    string
	Time   time.Duration
}

var solverSeed = 0

type solverSpec struct {
	name string
	args func(to time.Duration) []string
}

var solvers = []solverSpec{
	{"cvc5", func(to time.Duration) []string {
		return []string{"--lang=smt2", fmt.Sprintf("--tlimit=%d", to.Milliseconds()), fmt.Sprintf("--seed=%d", solverSeed)}
	}},
	{"z3-new", func(to time.Duration) []string {
		return []string{"-smt2", fmt.Sprintf("-T:%d", int(to.Seconds())+1), fmt.Sprintf("smt.random_seed=%d", solverSeed), fmt.Sprintf("sat.random_seed=%d", solverSeed)}
	}},
	{"z3", func(to time.Duration) []string {
		return []string{"-smt2", fmt.Sprintf("-T:%d", int(to.Seconds())+1), fmt.Sprintf("smt.random_seed=%d", solverSeed), fmt.Sprintf("sat.random_seed=%d", solverSeed)}
	}},
}

var solverCmdlines = []string{
	"cvc5 --lang=smt2 --tlimit=<ms> --seed=<VERIF_SEED> <query.smt2>",
	"z3-new -smt2 -T:<s> smt.random_seed=<VERIF_SEED> <query.smt2>   (z3 5.1.0)",
	"z3 -smt2 -T:<s> smt.random_seed=<VERIF_SEED> <query.smt2>       (z3 4.8.12)",
}

func runSolver(ctx context.Context, s solverSpec, file string, to time.Duration) SolverResult {
	t0 := time.Now()
	cmd := exec.CommandContext(ctx, s.name, append(s.args(to), file)...)
	var out bytes.Buffer
	cmd.Stdout = &out
	cmd.Stderr = &out
	cmd.Run()
	first := ""
	for _, ln := range strings.Split(out.String(), "\n") {
		if ln = strings.TrimSpace(ln); ln != "" && !strings.HasPrefix(ln, "WARNING") {
			first = ln
			break
		}
	}
	st := "error"
	switch first {
	case "unsat", "sat", "unknown":
		st = first
	case "timeout":
		st = "timeout"
	}
	if st == "error" && (ctx.Err() != nil || strings.Contains(out.String(), "interrupted by timeout") || strings.Contains(out.String(), "timeout")) {
		st = "timeout"
	}
	return SolverResult{s.name, st, out.String(), time.Since(t0)}
}

func raceSet(query string, timeout time.Duration, set []solverSpec) SolverResult {
	f, _ := os.CreateTemp("", "govc-*.smt2")
	f.WriteString(query)
	f.Close()
	defer os.Remove(f.Name())
	ctx, cancel := context.WithTimeout(context.Background(), timeout+2*time.Second)
	defer cancel()
	ch := make(chan SolverResult, len(set))
	for _, s := range set {
		go func(s solverSpec) { ch <- runSolver(ctx, s, f.Name(), timeout) }(s)
	}
	var last SolverResult
	for range set {
		r := <-ch
		if r.Status == "unsat" || r.Status == "sat" {
			cancel()
			return r
		}
		if r.Status == "error" {
			// a solver that rejects the query is an engine defect, never silently "undecided"
			if last.Status == "" || last.Status == "timeout" || last.Status == "unknown" {
				last = r
			}
			continue
		}
		if last.Status == "" || last.Status == "error" {
			last = r
		}
	}
	return last
}

// race: cvc5 and z3 5.1 first (they decide nearly everything), z3 4.8 only if neither answered.
func race(query string, timeout time.Duration) SolverResult {
	r := raceSet(query, timeout, solvers[:2])
	if r.Status == "unsat" || r.Status == "sat" {
		return r
	}
	r2 := raceSet(query, timeout, solvers[2:])
	if r2.Status == "unsat" || r2.Status == "sat" {
		return r2
	}
	if r.Status == "error" {
		return r
	}
	if r2.Status == "error" && r.Status != "unknown" {
		return r2
	}
	return r
}

// raceOther asks the back ends other than the one that already answered (thorough tier: second-solver agreement).
func raceOther(query string, except string, timeout time.Duration) SolverResult {
	var set []solverSpec
	for _, s := range solvers {
		if s.name != except {
			set = append(set, s)
		}
	}
	return raceSet(query, timeout, set)
}
