package main

import (
	"fmt"
	"regexp"
	"os"
	"sort"
	"go/token"
	"go/types"
	"strings"

	"golang.org/x/tools/go/ssa"
)

// ---------------- effects (inferred frames) ----------------

type effect struct {
	all   bool
	names map[string]bool
	fresh map[string]bool // arrays written only at objects allocated by the callee itself ("modifies fresh")
	// "modifies *p": cell arrays (C|basic|) written only at the address held by a pointer PARAMETER of the function.
	// via[n] = parameter indices; unres[n] = some write to n is not of that shape (then via[n] means nothing).
	via   map[string]map[int]bool
	unres map[string]bool
}

func (ef *effect) addVia(n string, idx int) {
	if ef.via == nil {
		ef.via = map[string]map[int]bool{}
	}
	if ef.via[n] == nil {
		ef.via[n] = map[int]bool{}
	}
	ef.via[n][idx] = true
}

func (ef *effect) addUnres(n string) {
	if ef.unres == nil {
		ef.unres = map[string]bool{}
	}
	ef.unres[n] = true
}

// paramOnly: the parameter indices through which n is written, when every write to n has that shape.
func (ef *effect) paramOnly(n string) map[int]bool {
	if ef.all || ef.unres[n] || len(ef.via[n]) == 0 {
		return nil
	}
	return ef.via[n]
}

// mergeCall merges a static callee's effect, translating "through parameter i" into the caller's terms: it stays a
// parameter write only if the i-th argument is itself a parameter of the caller.
func (ef *effect) mergeCall(ce *effect, args []ssa.Value, caller *ssa.Function) {
	for n := range ce.names {
		po := ce.paramOnly(n)
		if po == nil {
			ef.addUnres(n)
			continue
		}
		for idx := range po {
			if idx < len(args) {
				if p, ok := args[idx].(*ssa.Parameter); ok && p.Parent() == caller {
					ef.addVia(n, paramIndex(p))
					continue
				}
			}
			ef.addUnres(n)
		}
	}
	ef.merge(ce)
}

func paramIndex(p *ssa.Parameter) int {
	for i, q := range p.Parent().Params {
		if q == p {
			return i
		}
	}
	return -1
}

func newEffect() *effect { return &effect{names: map[string]bool{}, fresh: map[string]bool{}} }

func (ef *effect) addFresh(n string) {
	if ef.fresh == nil {
		ef.fresh = map[string]bool{}
	}
	ef.fresh[n] = true
}

func (ef *effect) merge(ce *effect) {
	if ce.all {
		ef.all = true
	}
	for n := range ce.names {
		ef.names[n] = true
		if ce.unres[n] || len(ce.via[n]) == 0 {
			ef.addUnres(n)
		}
	}
	for n := range ce.fresh {
		ef.addFresh(n)
	}
}

var purePkgs = map[string]bool{"strings": true, "strconv": true, "fmt": true, "errors": true, "unicode": true,
	"unicode/utf8": true, "math": true, "bytes": true, "net/url": true, "reflect": true, "path": true, "log": true, "path/filepath": true,
	"math/bits": true, "context": true, "os": true, "io/fs": true, "time": true}

func shapeOf(addr ssa.Value) *Loc {
	switch a := addr.(type) {
	case *ssa.FieldAddr:
		st := a.X.Type().Underlying().(*types.Pointer).Elem()
		s := st.Underlying().(*types.Struct)
		f := s.Field(a.Field)
		if _, ok := isStruct(f.Type()); ok {
			return &Loc{typ: f.Type()}
		}
		return &Loc{field: true, skey: structKey(st), fname: f.Name(), typ: f.Type()}
	case *ssa.IndexAddr:
		switch t := a.X.Type().Underlying().(type) {
		case *types.Slice:
			return &Loc{typ: t.Elem()}
		case *types.Pointer:
			return &Loc{typ: t.Elem().Underlying().(*types.Array).Elem()}
		}
	}
	if pt, ok := addr.Type().Underlying().(*types.Pointer); ok {
		return &Loc{typ: pt.Elem()}
	}
	return &Loc{typ: types.Typ[types.Int]}
}

func (e *Enc) effectOf(fn *ssa.Function) *effect {
	if c := e.db.byFunc[fname(fn)]; c != nil && c.Pure {
		be := e.bodyEffect(fn)
		return &effect{names: map[string]bool{}, fresh: be.fresh}
	}
	return e.bodyEffect(fn)
}

// bodyEffect infers the set of heap arrays fn may write (transitively), ignoring fn's own `pure` claim. It is the
// least fixed point over the call graph: a recursive edge to a function whose effect is being computed contributes
// nothing by itself; results that depended on such an edge are not cached.
func (e *Enc) bodyEffect(fn *ssa.Function) *effect {
	if ef, ok := e.effects[fn]; ok {
		if ef == nil { // in progress: recursive edge
			e.effTaint = true
			return newEffect()
		}
		return ef
	}
	pkgPath := pkgPathOf(fn)
	if fn.Blocks == nil || !strings.HasPrefix(pkgPath, modRoot) {
		ef := &effect{all: true}
		if purePkgs[pkgPath] {
			ef = newEffect()
		}
		e.effects[fn] = ef
		return ef
	}
	e.effects[fn] = nil
	savedTaint := e.effTaint
	e.effTaint = false
	ef := newEffect()
	for _, b := range fn.Blocks {
		for _, in := range b.Instrs {
			e.instrEffect(in, ef)
		}
	}
	for n := range ef.names {
		if strings.HasPrefix(n, "RV|") {
			delete(ef.names, n) // ghost "visited" set of a map range: local to the invocation
		}
	}
	for n := range ef.fresh {
		if ef.names[n] {
			delete(ef.fresh, n)
		}
	}
	if e.effTaint && e.effDepth > 0 {
		delete(e.effects, fn) // depends on an unfinished caller: recompute when asked again
	} else {
		e.effects[fn] = ef
	}
	e.effTaint = e.effTaint || savedTaint
	return ef
}

func (e *Enc) instrEffect(in ssa.Instruction, ef *effect) {
	if os.Getenv("GOVC_DEBUG_EFFECT") != "" {
		was := ef.all
		defer func() {
			if ef.all && !was {
				fmt.Fprintf(os.Stderr, "effect-all: %s in %s: %v\n", e.prog.Fset.Position(in.Pos()), in.Parent(), in)
			}
		}()
	}
	switch in := in.(type) {
	case *ssa.Alloc:
		if in.Heap {
			tmp := map[string]bool{}
			t := in.Type().Underlying().(*types.Pointer).Elem()
			if _, isArr := t.Underlying().(*types.Array); !isArr {
				namesOfType(t, tmp)
			}
			for n := range tmp {
				ef.addFresh(n)
			}
		}
	case *ssa.MakeMap:
		tmp := map[string]bool{}
		if mapWriteNames(in.Type(), tmp) {
			for n := range tmp {
				ef.addFresh(n)
			}
		}
	case *ssa.Next:
		if rg, ok := in.Iter.(*ssa.Range); ok && mapInfoOf(rg.X.Type()).ok {
			n := fmt.Sprintf("RV|%s|%s", fname(in.Parent()), rg.Name())
			ef.names[n] = true
			arrSorts[n] = "(Array " + mapInfoOf(rg.X.Type()).ksort + " Bool)"
		}
	case *ssa.Store:
		if rootAlloc(in.Addr) != nil {
			// object allocated by this very invocation: not a cell of the caller's pre-state
			tmp := map[string]bool{}
			writeNames(shapeOf(in.Addr), tmp)
			for n := range tmp {
				ef.addFresh(n)
			}
			return
		}
		tmp := map[string]bool{}
		writeNames(shapeOf(in.Addr), tmp)
		for n := range tmp {
			ef.names[n] = true
			if p, ok := in.Addr.(*ssa.Parameter); ok && strings.HasPrefix(n, "C|") && isBasicPointee(p.Type()) {
				ef.addVia(n, paramIndex(p))
			} else {
				ef.addUnres(n)
			}
		}
	case *ssa.MapUpdate:
		if _, fresh := in.Map.(*ssa.MakeMap); fresh {
			tmp := map[string]bool{} // a map created by this very invocation
			if mapWriteNames(in.Map.Type(), tmp) {
				for n := range tmp {
					ef.addFresh(n)
				}
				return
			}
		}
		if !mapWriteNames(in.Map.Type(), ef.names) {
			ef.all = true
		}
	case ssa.CallInstruction:
		c := in.Common()
		if c.IsInvoke() {
			if c.Method.Pkg() != nil && ufIfacePkgs[c.Method.Pkg().Path()] {
				return
			}
			if e.db.isPureIface(c.Method) {
				return
			}
			if fn := e.sealedMethod(c.Value.Type(), c.Method); fn != nil {
				e.effDepth++
				ce := e.effectOf(fn)
				e.effDepth--
				ef.mergeCall(ce, append([]ssa.Value{c.Value}, c.Args...), in.Parent())
				return
			}
			ef.all = true
			return
		}
		switch callee := c.Value.(type) {
		case *ssa.Builtin:
			switch callee.Name() {
			case "append", "copy":
				if sl, ok := c.Args[0].Type().Underlying().(*types.Slice); ok {
					namesOfType(sl.Elem(), ef.names)
				} else {
					ef.all = true
				}
			case "delete":
				if !mapWriteNames(c.Args[0].Type(), ef.names) {
					ef.all = true
				}
			}
		case *ssa.Function:
			if e.db.pureFns[callee.String()] {
				return
			}
			if rt := e.db.recvOnlyType(callee); rt != nil {
				namesOfType(rt, ef.names)
				return
			}
			if op, ok := headerOps[callee.String()]; ok {
				if op != "get" {
					if !mapWriteNames(c.Args[0].Type(), ef.names) {
						ef.all = true
					}
					ef.addFresh("C|string|") // the one-element value slice is freshly allocated
					arrSorts["C|string|"] = "(Array Ref Str)"
				}
				return
			}
			if pkgPathOf(callee) == "sort" && len(c.Args) > 0 {
				// sort.Strings / sort.Slice / sort.Ints ...: writes only the elements of the slice it is given
				t := c.Args[0].Type()
				if mi, ok := c.Args[0].(*ssa.MakeInterface); ok {
					t = mi.X.Type()
				}
				if sl, ok := t.Underlying().(*types.Slice); ok {
					namesOfType(sl.Elem(), ef.names)
					return
				}
			}
			if pkgPathOf(callee) == "encoding/json" && callee.Name() == "Unmarshal" {
				if mi, ok := c.Args[1].(*ssa.MakeInterface); ok {
					if pt, ok := mi.X.Type().Underlying().(*types.Pointer); ok {
						namesOfType(pt.Elem(), ef.names)
						return
					}
				}
			}
			e.effDepth++
			ce := e.effectOf(callee)
			e.effDepth--
			ef.mergeCall(ce, c.Args, in.Parent())
		case *ssa.MakeClosure:
			e.effDepth++
			ce := e.effectOf(callee.Fn.(*ssa.Function))
			e.effDepth--
			ef.merge(ce)
		default:
			if lf := localClosure(c.Value); lf != nil {
				// a function literal stored once in a local variable and called through it
				e.effDepth++
				ce := e.effectOf(lf)
				e.effDepth--
				ef.merge(ce)
				return
			}
			if fld := pureFieldOf(c.Value); fld != "" && e.db.pureFields[fld] {
				return
			}
			if pn := callbackName(c.Value); pn != "" {
				for owner := in.Parent(); owner != nil; owner = owner.Parent() {
					if oc := e.db.byFunc[fname(owner)]; oc != nil && oc.PureCallbacks[pn] {
						return
					}
				}
			}
			if callbackName(c.Value) != "" {
				// `pure` means pure up to the function's own callbacks
				owner := in.Parent()
				for owner != nil {
					if oc := e.db.byFunc[fname(owner)]; oc != nil && oc.Pure {
						return
					}
					owner = owner.Parent()
				}
			}
			ef.all = true
		}
	}
}

func isBasicPointee(t types.Type) bool {
	pt, ok := t.Underlying().(*types.Pointer)
	if !ok {
		return false
	}
	_, ok = pt.Elem().Underlying().(*types.Basic)
	return ok
}

// ---------------- driver ----------------

func newEnc(prog *ssa.Program, fn *ssa.Function, db *ContractDB) *Enc {
	return &Enc{prog: prog, fn: fn, db: db, con: db.byFunc[fname(fn)], declared: map[string]bool{},
		vals: map[ssa.Value]*Val{}, locs: map[ssa.Value]*Loc{}, endState: map[*ssa.BasicBlock]State{},
		reach: map[*ssa.BasicBlock]string{}, kindN: map[string]int{}, tags: map[string]int{},
		params: map[string]*Val{}, effects: map[*ssa.Function]*effect{}, ranges: map[*ssa.Range]*rangeInfo{}, freeRef: map[string]*Val{}, merges: map[int]*mergeInfo{}, preserved: map[int]*preserveInfo{}, pendingFrame: map[string]string{}, pendingOld: map[string]string{}, birth: map[string][2]string{}, assertHit: map[int]bool{}, dyn: map[ssa.Value]types.Type{}, ghostSites: map[string]bool{}, iterSites: map[string]int{}, loopWM: map[int]string{}, siteResults: map[string]*Val{}, lastOrd: map[string]int{}}
}

var reachedRe = regexp.MustCompile(`reached\("([^"]+)"\)`)
var thisiterRe = regexp.MustCompile(`thisiter\("([^"]+)"\)`)

func (e *Enc) run() {
	if e.con != nil {
		scan := func(cs []*Clause) {
			for _, c := range cs {
				for _, m := range reachedRe.FindAllStringSubmatch(c.Src, -1) {
					e.ghostSites[m[1]] = true
				}
			}
		}
		scan(e.con.Requires)
		scan(e.con.Ensures)
		for _, a := range e.con.Asserts {
			scan([]*Clause{a.C})
		}
		for n, ls := range e.con.Loops {
			for _, c := range ls.Steps {
				for _, m := range thisiterRe.FindAllStringSubmatch(c.Src, -1) {
					e.iterSites[m[1]] = n
				}
			}
		}
	}
	order := e.findLoops()
	for _, li := range e.loops {
		ef := &effect{names: li.writes, fresh: map[string]bool{}}
		for b := range li.body {
			for _, in := range b.Instrs {
				e.instrEffect(in, ef)
			}
		}
		for n := range ef.fresh {
			li.writes[n] = true
		}
		li.all = ef.all
		// arrays that the loop writes ONLY at its own local allocations (e.g. the range variable's cell)
		li.localOnly = map[string][]*ssa.Alloc{}
		global := map[string]bool{}
		for b := range li.body {
			for _, in := range b.Instrs {
				one := &effect{names: map[string]bool{}, fresh: map[string]bool{}}
				e.instrEffect(in, one)
				if s, ok := in.(*ssa.Store); ok {
					if a := rootAlloc(s.Addr); a != nil {
						for n := range one.fresh {
							li.localOnly[n] = append(li.localOnly[n], a)
						}
						continue
					}
				}
				if al, ok := in.(*ssa.Alloc); ok {
					for n := range one.fresh {
						li.localOnly[n] = append(li.localOnly[n], al)
					}
					continue
				}
				for n := range one.names {
					global[n] = true
				}
				for n := range one.fresh {
					global[n] = true
				}
			}
		}
		for n := range global {
			delete(li.localOnly, n)
		}
		if li.all {
			// what every "unknown code" call in the body is declared to preserve
			first := true
			for b := range li.body {
				for _, in := range b.Instrs {
					one := &effect{names: map[string]bool{}, fresh: map[string]bool{}}
					e.instrEffect(in, one)
					if !one.all {
						continue
					}
					pp := e.instrPreserves(in)
					if first {
						li.preserve = pp
						first = false
					} else {
						var keep []string
						for _, x := range li.preserve {
							if contains(pp, x) {
								keep = append(keep, x)
							}
						}
						li.preserve = keep
					}
				}
			}
		}
	}
	e.entry = State{m: map[string]string{}, epoch: 0, unesc: map[*ssa.Alloc]string{}}
	alloc0 := e.declare("alloc!0", "Int")
	e.assume(app(">=", alloc0, "0"))
	for i, p := range e.fn.Params {
		v := e.freshVal("in."+p.Name(), p.Type())
		e.vals[p] = v
		e.params[p.Name()] = v
		for k, c := range v.c {
			e.inputs = append(e.inputs, c)
			if leaves(p.Type())[k].sort == "Ref" {
				e.assume(preExisting(c))
			}
		}
		if i == 0 && e.fn.Signature.Recv() != nil {
			if _, ok := p.Type().Underlying().(*types.Pointer); ok && !(e.con != nil && e.con.NilableRecv) {
				e.assume(not(eq(v.c[0], "null"))) // receiver non-nil: checked at every static call site in functions under contract
			}
		} else if !(e.con != nil && e.con.Nilable[p.Name()]) {
			// default precondition (stated assumption): callbacks and interface-typed parameters are non-nil
			switch pt := p.Type().Underlying().(type) {
			case *types.Signature:
				e.assume(not(eq(v.c[0], "null")))
			case *types.Interface:
				// non-empty interfaces other than error (Reader, Writer, KeyChecker ...): nil is API misuse
				if _, isTP := p.Type().(*types.TypeParam); !isTP && pt.NumMethods() > 0 && types.TypeString(p.Type(), nil) != "error" {
					e.assume(not(eq(v.c[0], "0")))
				}
			}
		}
	}
	for _, p := range e.fn.Params {
		ts, ok := e.spec[p.Name()]
		if !ok {
			continue
		}
		t := e.lookupType(ts)
		if t == nil {
			panic("specialization: unknown type " + ts)
		}
		v := e.vals[p]
		e.dyn[p] = t
		e.assume(eq(v.c[0], e.typeTag(t)))
		if _, isPtr := t.Underlying().(*types.Pointer); isPtr {
			e.params[p.Name()] = &Val{typ: t, c: []string{v.c[1]}}
			e.assume(not(eq(v.c[1], "null")))
		}
	}
	e.reach[e.fn.Blocks[0]] = "true"
	e.curBlock = e.fn.Blocks[0]
	e.bindFreeVars()
	if e.fn.Signature.Recv() != nil {
		e.tinv = e.db.typeInvFor(fname(e.fn))
	}
	if len(e.tinv) > 0 && len(e.fn.Params) > 0 {
		vars := map[string]*Val{"self": e.vals[e.fn.Params[0]]}
		env := &Env{e: e, st: &e.entry, old: &e.entry, vars: vars}
		for _, c := range e.tinv {
			if e.active(c) {
				e.assume(env.formula(c.E))
			}
		}
	}
	if e.con != nil {
		env := &Env{e: e, st: &e.entry, old: &e.entry, vars: e.params}
		for _, r := range e.con.Requires {
			if e.active(r) {
				e.assume(env.formula(r.E))
			}
		}
		// ghostdef: the DEFINITION of a ghost spec function (declared with `spec`) in terms of the entry state, assumed
		// at entry and not imposed on callers. It must be a definition by recursion over the integers (a conservative
		// extension): it may constrain only the spec function it defines.
		for _, g := range e.con.GhostDefs {
			e.assume(env.formula(g.E))
			e.note("ghost definition assumed at entry of %s: %s", fname(e.fn), g.Src)
		}
	}
	for _, b := range order {
		e.block(b)
	}
	// every call-site / store-site clause must have found its site (a renamed callee or a removed call is an alarm,
	// not a silently skipped obligation)
	if e.con != nil {
		for ai, a := range e.con.Asserts {
			if e.assertHit[ai] || !e.active(a.C) {
				continue
			}
			e.curBlock = e.fn.Blocks[0]
			o := e.oblige("assert", fmt.Sprintf("@site-missing:%s#%d:%s", a.Callee, a.Ordinal, shorten(a.C.Src)), e.fn.Pos(), "false")
			o.Owned = true
			o.Clause = a.C
			e.cons = e.cons[:len(e.cons)-1]
		}
	}
	// a `pure` claim is checked against the inferred write set of the body
	if e.con != nil && e.con.Pure {
		ef := e.bodyEffect(e.fn)
		ok := "true"
		if ef.all || len(ef.names) > 0 {
			ok = "false"
		}
		var ns []string
		for n := range ef.names {
			ns = append(ns, n)
		}
		sort.Strings(ns)
		if len(ns) > 3 {
			ns = ns[:3]
		}
		e.curBlock = e.fn.Blocks[0]
		o := e.oblige("frame", "pure:writes="+strings.Join(ns, ","), e.fn.Pos(), ok)
		o.Owned = true
		e.cons = e.cons[:len(e.cons)-1] // a syntactic verdict: never assumed afterwards
	}
	if e.con != nil && e.con.Det {
		e.detObligation()
	}
	// type invariant at every return
	if len(e.tinv) > 0 && len(e.fn.Params) > 0 {
		for _, r := range e.rets {
			e.curBlock = r.b
			st := r.st
			env := &Env{e: e, st: &st, old: &e.entry, vars: map[string]*Val{"self": e.vals[e.fn.Params[0]]}}
			for _, c := range e.tinv {
				if e.active(c) {
					if o := e.obligeClause("post", c, r.b.Instrs[len(r.b.Instrs)-1].Pos(), env.formula(c.E)); o != nil {
						o.Name = strings.Replace(o.Name, "#post:", "#post:typeinv:", 1)
					}
				}
			}
		}
	}
	// sortedby: the comparator really is "key(i) < key(j)" on the declared key
	if e.con != nil && len(e.con.SortedBy) > 0 && len(e.fn.Params) == 2 {
		sl := e.con.SortedBy[0]
		key := func(p string) string {
			if len(e.con.SortedBy) > 1 {
				return fmt.Sprintf("%s[%s].%s", sl, p, e.con.SortedBy[1])
			}
			return fmt.Sprintf("%s[%s]", sl, p)
		}
		src := fmt.Sprintf("result == keylt(%s, %s)", key(e.fn.Params[0].Name()), key(e.fn.Params[1].Name()))
		if ex, err := parseExpr(src); err == nil {
			e.con.Ensures = append(e.con.Ensures, &Clause{E: ex, Tags: e.con.SortedByTags, Src: "sortedby:" + src, File: e.con.File, Line: e.con.Line})
			e.con.SortedBy = append([]string{}, e.con.SortedBy...)
			e.sortedByAdded = true
		}
	}
	// postconditions
	if e.con != nil {
		for _, r := range e.rets {
			e.curBlock = r.b
			vars := map[string]*Val{}
			for k, v := range e.params {
				vars[k] = v
			}
			res := e.fn.Signature.Results()
			for i := 0; i < res.Len(); i++ {
				if n := res.At(i).Name(); n != "" && n != "_" {
					vars[n] = r.res[i]
				}
				vars[fmt.Sprintf("result%d", i)] = r.res[i]
				if types.TypeString(res.At(i).Type(), nil) == "error" {
					vars["err"] = r.res[i]
				}
			}
			if res.Len() >= 1 {
				vars["result"] = r.res[0]
			}
			st := r.st
			env := &Env{e: e, st: &st, old: &e.entry, vars: vars, at: r.b.Instrs[len(r.b.Instrs)-1], asGoal: true}
			for _, en := range e.con.Ensures {
				if e.active(en) {
					e.obligeClause("post", en, r.b.Instrs[len(r.b.Instrs)-1].Pos(), env.formula(en.E))
				}
			}
		}
	}
}

// bindFreeVars gives the captured variables of a closure entry values. A variable captured by reference (the binding
// in the enclosing function is an Alloc) is a non-nil pointer to its cell; contracts name the cell's content.
func (e *Enc) bindFreeVars() {
	if len(e.fn.FreeVars) == 0 {
		return
	}
	byRef := map[int]bool{}
	if par := e.fn.Parent(); par != nil {
		for _, b := range par.Blocks {
			for _, in := range b.Instrs {
				if mc, ok := in.(*ssa.MakeClosure); ok && mc.Fn == e.fn {
					for i, bd := range mc.Bindings {
						if _, ok := bd.(*ssa.Alloc); ok {
							byRef[i] = true
						}
					}
				}
			}
		}
	}
	for i, fv := range e.fn.FreeVars {
		v := e.freshVal("in.free."+fv.Name(), fv.Type())
		e.vals[fv] = v
		for k, c := range v.c {
			if leaves(fv.Type())[k].sort == "Ref" {
				e.assume(preExisting(c))
			}
		}
		if byRef[i] {
			e.assume(app("(_ is obj)", v.c[0]))
			e.freeRef[fv.Name()] = v
			if pt, ok := fv.Type().Underlying().(*types.Pointer); ok {
				if _, isFn := pt.Elem().Underlying().(*types.Signature); isFn {
					// default precondition: captured callbacks are non-nil
					e.assume(not(eq(e.loadAt(&e.entry, v.c[0], pt.Elem()).c[0], "null")))
				}
			}
		} else {
			e.params[fv.Name()] = v
			if _, ok := fv.Type().Underlying().(*types.Signature); ok {
				e.assume(not(eq(v.c[0], "null"))) // default precondition: captured callbacks are non-nil
			}
		}
	}
}

// lookupType resolves "pkg.Name" or "*pkg.Name" among the loaded module packages.
func (e *Enc) lookupType(s string) types.Type {
	ptr := strings.HasPrefix(s, "*")
	s = strings.TrimPrefix(s, "*")
	pk, name, ok := strings.Cut(s, ".")
	if !ok {
		return nil
	}
	for _, sp := range e.prog.AllPackages() {
		if sp.Pkg.Name() == pk && strings.HasPrefix(sp.Pkg.Path(), modRoot) {
			if o := sp.Pkg.Scope().Lookup(name); o != nil {
				if ptr {
					return types.NewPointer(o.Type())
				}
				return o.Type()
			}
		}
	}
	return nil
}

// localClosure resolves a called function value to the function literal it must be: a MakeClosure, or a load of a
// local variable (possibly captured) that is assigned exactly once, with a MakeClosure.
func localClosure(v ssa.Value) *ssa.Function {
	switch x := v.(type) {
	case *ssa.MakeClosure:
		f, _ := x.Fn.(*ssa.Function)
		return f
	case *ssa.UnOp:
		var cell ssa.Value = x.X
		if fv, ok := cell.(*ssa.FreeVar); ok {
			// captured variable: find the binding in the parent
			par := fv.Parent().Parent()
			if par == nil {
				return nil
			}
			idx := -1
			for i, f := range fv.Parent().FreeVars {
				if f == fv {
					idx = i
				}
			}
			for _, b := range par.Blocks {
				for _, in := range b.Instrs {
					if mc, ok := in.(*ssa.MakeClosure); ok && mc.Fn == fv.Parent() && idx >= 0 {
						cell = mc.Bindings[idx]
					}
				}
			}
		}
		a, ok := cell.(*ssa.Alloc)
		if !ok {
			return nil
		}
		var src ssa.Value
		n := 0
		for _, r := range *a.Referrers() {
			if s, ok := r.(*ssa.Store); ok && s.Addr == a {
				n++
				src = s.Val
			}
		}
		if n == 1 {
			if mc, ok := src.(*ssa.MakeClosure); ok {
				f, _ := mc.Fn.(*ssa.Function)
				return f
			}
		}
	}
	return nil
}

// siteName is the contract-level name of a call site (without ordinal).
func siteName(c *ssa.Call) string {
	cc := c.Common()
	if cc.IsInvoke() {
		return "invoke:" + cc.Method.Name()
	}
	switch callee := cc.Value.(type) {
	case *ssa.Function:
		return siteNameOf(callee)
	case *ssa.Builtin:
		return "builtin:" + callee.Name()
	}
	nm := callbackName(cc.Value)
	if nm == "" {
		nm = exprText(cc.Value)
	}
	return "dyn:" + nm
}

// preExisting: the object r designates (directly, or as a sub-object / element up to two levels deep) was allocated
// before the function under verification was entered.
func preExisting(r string) string {
	one := func(x string) string { return fmt.Sprintf("(=> ((_ is obj) %s) (<= (oid %s) |alloc!0|))", x, x) }
	return and(one(r), one(owner(r)), one(owner(owner(r))))
}

// instrPreserves: the array prefixes an "everything" call is declared to leave alone (nil if none).
func (e *Enc) instrPreserves(in ssa.Instruction) []string {
	ci, ok := in.(ssa.CallInstruction)
	if !ok {
		return nil
	}
	c := ci.Common()
	if c.IsInvoke() {
		return e.db.ifacePreservesFor(c.Method)
	}
	switch callee := c.Value.(type) {
	case *ssa.Function:
		if con := e.db.byFunc[fname(callee)]; con != nil {
			return con.Preserves
		}
	default:
		if pn := callbackName(c.Value); pn != "" && e.con != nil {
			return e.con.CallbackPreserves[pn]
		}
	}
	return nil
}

func shorten(s string) string {
	s = strings.Join(strings.Fields(s), "")
	if len(s) > 72 {
		s = s[:72]
	}
	return s
}

func (e *Enc) block(b *ssa.BasicBlock) {
	e.curBlock = b
	var fwd []*ssa.BasicBlock
	for _, p := range b.Preds {
		if !b.Dominates(p) {
			if _, ok := e.endState[p]; ok {
				fwd = append(fwd, p)
			}
		}
	}
	var st State
	if b.Index == 0 {
		st = e.entry.clone()
	} else {
		if len(fwd) == 0 { // unreachable
			e.reach[b] = "false"
			e.endState[b] = State{m: map[string]string{}, unesc: map[*ssa.Alloc]string{}}
			return
		}
		r := e.declare(fmt.Sprintf("reach!%d", b.Index), "Bool")
		var cs []string
		for _, p := range fwd {
			cs = append(cs, e.edgeCond(p, b))
		}
		e.assume(eq(r, or(cs...)))
		e.reach[b] = r
		st = e.mergeStates(b, fwd)
	}
	e.stampBirth(&st)
	li := e.loops[b]
	if li != nil {
		e.loopHeader(b, li, fwd, &st)
		e.stampBirth(&st)
	}
	for _, in := range b.Instrs {
		if phi, ok := in.(*ssa.Phi); ok {
			if li != nil {
				continue // already havocked in loopHeader
			}
			v := e.freshVal("phi."+phi.Comment, phi.Type())
			e.vals[phi] = v
			for i, p := range b.Preds {
				if _, ok := e.endState[p]; !ok {
					continue
				}
				inc := e.val(phi.Edges[i])
				var eqs []string
				for k := range v.c {
					eqs = append(eqs, eq(v.c[k], inc.c[k]))
				}
				e.assume(imp(e.edgeCond(p, b), and(eqs...)))
			}
			continue
		}
		for _, a := range escapes(in) {
			delete(st.unesc, a)
		}
		e.instr(in, &st)
		e.stampBirth(&st)
	}
	e.endState[b] = st
	// back edges: invariant preservation
	for _, s := range b.Succs {
		if s.Dominates(b) {
			if sl := e.loops[s]; sl != nil {
				e.loopEdge(sl, b, "inv-step")
			}
		}
	}
}

// ---------------- loops: invariants + Houdini candidates ----------------

func (e *Enc) phiSub(h, p *ssa.BasicBlock) map[ssa.Value]*Val {
	sub := map[ssa.Value]*Val{}
	for _, in := range h.Instrs {
		phi, ok := in.(*ssa.Phi)
		if !ok {
			break
		}
		for i, q := range h.Preds {
			if q == p {
				sub[phi] = e.val(phi.Edges[i])
			}
		}
	}
	return sub
}

func (e *Enc) loopEdge(li *loopInfo, p *ssa.BasicBlock, kind string) {
	sub := e.phiSub(li.header, p)
	st := e.endState[p]
	for k, c := range li.cands {
		cd := e.cands[li.cidx[k]]
		goal := imp(e.edgeCond(p, li.header), c(sub, st))
		o := &Obligation{
			Name:    fmt.Sprintf("%s/%s#%s:loop%d:%s@%d", e.mod, e.fnName(), kind, li.ordinal, cd.desc, e.kindN[kind+cd.desc]),
			Owned:   cd.user,
			Block:   p.Index,
			Kind:    kind,
			Desc:    cd.desc,
			Pos:     e.prog.Fset.Position(p.Instrs[len(p.Instrs)-1].Pos()),
			NCons:   len(e.cons),
			Goal:    goal,
			Houdini: li.cidx[k],
		}
		e.kindN[kind+cd.desc]++
		e.obls = append(e.obls, o)
	}
	// step clauses: must hold whenever control returns to the loop head (not at entry, never assumed)
	if e.con != nil && kind == "inv-step" {
		if ls := e.con.Loops[li.ordinal]; ls != nil {
			for _, sc := range ls.Steps {
				if !e.active(sc) {
					continue
				}
				stc := st
				env := &Env{e: e, st: &stc, old: &e.entry, vars: e.params, sub: sub, header: li.header}
				desc := fmt.Sprintf("loop%d:%s", li.ordinal, shorten(sc.Src))
				o := &Obligation{
					Name:    fmt.Sprintf("%s/%s#step:%s@%d", e.mod, e.fnName(), desc, e.kindN["step"+desc]),
					Owned:   true,
					Block:   p.Index,
					Kind:    "step",
					Desc:    desc,
					Clause:  sc,
					Pos:     e.prog.Fset.Position(p.Instrs[len(p.Instrs)-1].Pos()),
					NCons:   len(e.cons),
					Goal:    imp(e.edgeCond(p, li.header), env.formula(sc.E)),
					Houdini: -1,
				}
				e.kindN["step"+desc]++
				e.obls = append(e.obls, o)
			}
		}
	}
}

func (e *Enc) loopHeader(b *ssa.BasicBlock, li *loopInfo, fwd []*ssa.BasicBlock, st *State) {
	pre := st.clone()
	// header phis
	var phis []*ssa.Phi
	for _, in := range b.Instrs {
		if phi, ok := in.(*ssa.Phi); ok {
			phis = append(phis, phi)
		} else {
			break
		}
	}
	add := func(desc string, user bool, f func(sub map[ssa.Value]*Val, st State) string) {
		e.n++
		flag := e.declare(fmt.Sprintf("hk!%d", e.n), "Bool")
		e.cands = append(e.cands, &candidate{flag: flag, desc: desc, alive: true, user: user})
		li.cands = append(li.cands, f)
		li.cidx = append(li.cidx, len(e.cands)-1)
	}
	// user invariants
	if e.con != nil {
		if ls := e.con.Loops[li.ordinal]; ls != nil {
			for _, inv := range ls.Invariants {
				inv := inv
				if !e.active(inv) {
					continue
				}
				add("user:"+shorten(inv.Src), true, func(sub map[ssa.Value]*Val, s State) string {
					env := &Env{e: e, st: &s, old: &e.entry, vars: e.params, sub: sub, header: b}
					return env.formula(inv.E)
				})
			}
		}
	}
	// template candidates over integer header phis
	lenFns := e.lenTermFns(li)
	// lengths of slices/strings defined before the loop and measured inside it (range loops over call results)
	seenLen := map[ssa.Value]bool{}
	for blk := range li.body {
		for _, in := range blk.Instrs {
			c, ok := in.(*ssa.Call)
			if !ok {
				continue
			}
			bi, ok := c.Call.Value.(*ssa.Builtin)
			if !ok || bi.Name() != "len" {
				continue
			}
			arg := c.Call.Args[0]
			if seenLen[arg] {
				continue
			}
			if ai, ok := arg.(ssa.Instruction); ok && li.body[ai.Block()] {
				continue
			}
			if _, isParam := arg.(*ssa.Parameter); isParam {
				continue
			}
			if _, known := e.vals[arg]; !known {
				continue
			}
			seenLen[arg] = true
			av := e.val(arg)
			switch arg.Type().Underlying().(type) {
			case *types.Slice:
				lenFns = append(lenFns, lenFn{"len(" + exprText(arg) + ")", func(State) string { return av.c[2] }})
			case *types.Basic:
				if isString(arg.Type()) {
					lenFns = append(lenFns, lenFn{"len(" + exprText(arg) + ")", func(State) string { return app("slen", av.c[0]) }})
				}
			}
		}
	}
	// integer values computed before the loop and used as comparison bounds inside it (hoisted len(...) of range loops)
	type boundTerm struct {
		name, term string
	}
	var bounds []boundTerm
	seenB := map[ssa.Value]bool{}
	for blk := range li.body {
		for _, in := range blk.Instrs {
			bo, ok := in.(*ssa.BinOp)
			if !ok {
				continue
			}
			switch bo.Op {
			case token.LSS, token.LEQ, token.GTR, token.GEQ:
			default:
				continue
			}
			for _, y := range []ssa.Value{bo.X, bo.Y} {
				if seenB[y] || !isInt(y.Type()) {
					continue
				}
				yi, ok := y.(ssa.Instruction)
				if !ok || li.body[yi.Block()] {
					continue
				}
				if _, known := e.vals[y]; !known {
					continue
				}
				seenB[y] = true
				bounds = append(bounds, boundTerm{exprText(y), e.val(y).c[0]})
			}
		}
	}
	type intTerm struct {
		name string
		f    func(sub map[ssa.Value]*Val, s State) string
	}
	var terms []intTerm
	for _, phi := range phis {
		phi := phi
		if bt, ok := phi.Type().Underlying().(*types.Basic); !ok || bt.Info()&types.IsInteger == 0 {
			continue
		}
		name := phi.Comment
		if name == "" {
			name = phi.Name()
		}
		terms = append(terms, intTerm{name, func(sub map[ssa.Value]*Val, s State) string { return sub[phi].c[0] }})
		for _, bd := range bounds {
			bd := bd
			add(name+"<"+bd.name, false, func(sub map[ssa.Value]*Val, s State) string { return app("<", sub[phi].c[0], bd.term) })
			add(name+"<="+bd.name, false, func(sub map[ssa.Value]*Val, s State) string { return app("<=", sub[phi].c[0], bd.term) })
		}
		add(name+">=0", false, func(sub map[ssa.Value]*Val, s State) string { return app(">=", sub[phi].c[0], "0") })
		for _, lf := range lenFns {
			lf := lf
			add(name+"<="+lf.desc, false, func(sub map[ssa.Value]*Val, s State) string { return app("<=", sub[phi].c[0], lf.f(s)) })
			add(name+"<"+lf.desc, false, func(sub map[ssa.Value]*Val, s State) string { return app("<", sub[phi].c[0], lf.f(s)) })
		}
		if len(fwd) == 1 {
			init := e.phiSub(b, fwd[0])[phi]
			if init != nil {
				add(name+">=init", false, func(sub map[ssa.Value]*Val, s State) string { return app(">=", sub[phi].c[0], init.c[0]) })
			}
		}
	}
	// template candidates over integer fields of parameters written in the loop
	seen := map[string]bool{}
	for blk := range li.body {
		for _, in := range blk.Instrs {
			s, ok := in.(*ssa.Store)
			if !ok {
				continue
			}
			fa, ok := s.Addr.(*ssa.FieldAddr)
			if !ok {
				continue
			}
			par, ok := fa.X.(*ssa.Parameter)
			if !ok {
				continue
			}
			sh := shapeOf(fa)
			if bt, ok := sh.typ.Underlying().(*types.Basic); !ok || bt.Info()&types.IsInteger == 0 || !sh.field {
				continue
			}
			key := par.Name() + "." + sh.fname
			if seen[key] {
				continue
			}
			seen[key] = true
			ref := e.val(par).c[0]
			loc := &Loc{field: true, ref: ref, skey: sh.skey, fname: sh.fname, typ: sh.typ}
			at := func(s State) string { return e.loadLoc(&s, loc).c[0] }
			v0 := at(pre)
			terms = append(terms, intTerm{key, func(sub map[ssa.Value]*Val, s State) string { return at(s) }})
			add(key+">=0", false, func(sub map[ssa.Value]*Val, s State) string { return app(">=", at(s), "0") })
			add(key+">=init", false, func(sub map[ssa.Value]*Val, s State) string { return app(">=", at(s), v0) })
			for _, lf := range lenFns {
				lf := lf
				add(key+"<="+lf.desc, false, func(sub map[ssa.Value]*Val, s State) string { return app("<=", at(s), lf.f(s)) })
			}
		}
	}
	// frame candidates: every scalar field of a struct-pointer parameter keeps its entry value
	for _, p := range e.fn.Params {
		pt, ok := p.Type().Underlying().(*types.Pointer)
		if !ok {
			continue
		}
		if _, ok := isStruct(pt.Elem()); !ok {
			continue
		}
		ref := e.val(p).c[0]
		pname := p.Name()
		var walk func(ref string, t types.Type, prefix string, depth int)
		walk = func(ref string, t types.Type, prefix string, depth int) {
			s, _ := isStruct(t)
			for i := 0; i < s.NumFields(); i++ {
				f := s.Field(i)
				if _, ok := isStruct(f.Type()); ok {
					if depth < 2 {
						walk(app("emb", ref, num(int64(i))), f.Type(), prefix+f.Name()+".", depth+1)
					}
					continue
				}
				loc := &Loc{field: true, ref: ref, skey: structKey(t), fname: f.Name(), typ: f.Type()}
				names := map[string]bool{}
				writeNames(loc, names)
				touched := li.all
				for n := range names {
					if li.writes[n] {
						touched = true
					}
				}
				if !touched {
					continue
				}
				entry := e.loadLoc(&e.entry, loc)
				for k, lf := range leaves(f.Type()) {
					k := k
					nm := pname + "." + prefix + f.Name()
					if lf.path != "" {
						nm += ":" + lf.path
					}
					add(nm+"==entry", false, func(sub map[ssa.Value]*Val, s State) string {
						cur := e.loadLoc(&s, loc)
						return eq(cur.c[k], entry.c[k])
					})
				}
			}
		}
		walk(ref, pt.Elem(), "", 0)
	}
	// pairwise ordering candidates between the integer loop variables
	if len(terms) >= 2 && len(terms) <= 5 {
		for i := range terms {
			for j := range terms {
				if i == j {
					continue
				}
				a, b := terms[i], terms[j]
				add(a.name+"<="+b.name, false, func(sub map[ssa.Value]*Val, s State) string { return app("<=", a.f(sub, s), b.f(sub, s)) })
			}
		}
	}
	// entry obligations
	for _, p := range fwd {
		e.loopEdge(li, p, "inv-entry")
	}
	// havoc
	preLoop := st.clone()
	for blk := range li.body {
		for _, in := range blk.Instrs {
			for _, a := range escapes(in) {
				delete(st.unesc, a)
			}
		}
	}
	if li.all && len(li.preserve) > 0 {
		pre := st.clone()
		e.havocAllExcept(st, li.writes)
		for n, t := range pre.m {
			for _, p := range li.preserve {
				if strings.HasPrefix(n, p) && !li.writes[n] {
					st.m[n] = t
				}
			}
		}
		var pp []string
		pp = append(pp, li.preserve...)
		e.preserved[st.epoch] = &preserveInfo{pre: pre, prefixes: pp, except: li.writes}
	} else if li.all {
		e.havocAllExcept(st, li.writes)
	} else {
		for n := range li.writes {
			if srt, ok := arrSorts[n]; ok {
				e.n++
				st.m[n] = e.declare(fmt.Sprintf("%s@%d", n, e.n), srt)
				e.wfArray(n, st.m[n])
			} else {
				e.havocAll(st) // maps / element writes via builtins: coarse
				break
			}
		}
	}
	// arrays written only at the loop's own local allocations: every other cell keeps its value
	if len(li.localOnly) > 0 {
		wm := e.watermark(&preLoop)
		for n, allocs := range li.localOnly {
			if li.all {
				// unknown code runs in the loop: only arrays it is declared to preserve can be framed
				kept := false
				for _, p := range li.preserve {
					if strings.HasPrefix(n, p) {
						kept = true
					}
				}
				if !kept {
					continue
				}
			}
			srt, ok := arrSorts[n]
			if !ok || !strings.HasPrefix(srt, "(Array Ref ") {
				continue
			}
			old := e.arrRaw(&preLoop, n, srt)
			nw := e.arrRaw(st, n, srt)
			if old == nw {
				continue
			}
			var mine []string
			for _, a := range allocs {
				if av, known := e.vals[a]; known && !li.body[a.Block()] {
					r := av.c[0]
					mine = append(mine, eq("r", r), eq(owner("r"), r), eq(owner(owner("r")), r))
				}
			}
			// objects allocated inside the loop lie above the watermark at the loop head
			inLoop := func(x string) string {
				return fmt.Sprintf("(and ((_ is obj) %s) (> (oid %s) %s) (< (oid %s) (+ |alloc!0| 1000000000)))", x, x, wm, x)
			}
			mine = append(mine, inLoop("r"), inLoop(owner("r")), inLoop(owner(owner("r"))))
			e.assume(fmt.Sprintf("(forall ((r Ref)) (! (=> (not %s) (= (select %s r) (select %s r))) :pattern ((select %s r))))", or(mine...), nw, old, nw))
		}
	}
	// the allocation watermarks only grow
	{
		old := e.calleeWatermark(st)
		nw := e.fresh("cw.loop", "Int")
		e.assume(app(">=", nw, old))
		arrSorts["G|cw"] = "Int"
		st.m["G|cw"] = nw
	}
	{
		old := e.watermark(st)
		nw := e.fresh("wm.loop", "Int")
		e.assume(app(">=", nw, old))
		arrSorts["G|wm"] = "Int"
		st.m["G|wm"] = nw
		e.loopWM[li.ordinal] = nw
	}
	// ghost "reached" flags of call sites inside the loop are unknown at the header
	for site := range e.ghostSites {
		base := site
		if i := strings.LastIndex(base, "#"); i >= 0 {
			base = base[:i]
		}
		inLoop := false
		for blk := range li.body {
			for _, in := range blk.Instrs {
				if c, ok := in.(*ssa.Call); ok && siteName(c) == base {
					inLoop = true
				}
				if mu, ok := in.(*ssa.MapUpdate); ok && base == "mapupdate" && fmt.Sprintf("mapupdate#%d", e.mapUpdateOrdinal(mu)) == site {
					inLoop = true
				}
				if s, ok := in.(*ssa.Store); ok && strings.HasPrefix(base, "store:") {
					if fa, ok := s.Addr.(*ssa.FieldAddr); ok {
						stt := fa.X.Type().Underlying().(*types.Pointer).Elem()
						if "store:"+structKey(stt)+"."+stt.Underlying().(*types.Struct).Field(fa.Field).Name() == base {
							inLoop = true
						}
					}
				}
			}
		}
		if inLoop {
			arrSorts["G|reached|"+site] = "Bool"
			st.m["G|reached|"+site] = e.fresh("ghost.reached", "Bool")
		}
	}
	// per-iteration flags start every iteration unset
	for site, n := range e.iterSites {
		if n == li.ordinal {
			arrSorts["G|iter|"+site] = "Bool"
			st.m["G|iter|"+site] = "false"
		}
	}
	// fresh phis
	sub := map[ssa.Value]*Val{}
	for _, phi := range phis {
		v := e.freshVal("loop."+phi.Comment, phi.Type())
		e.vals[phi] = v
		sub[phi] = v
		e.existing(st, v) // a loop-carried reference designates an object that exists at the loop head
	}
	// assume candidates at header
	for k, c := range li.cands {
		cd := e.cands[li.cidx[k]]
		e.assume(imp(and(cd.flag, e.reach[b]), c(sub, *st)))
	}
}


type lenFn struct {
	desc string
	f    func(s State) string
}

// lenTermFns: lengths of string/slice parameters and of string/slice fields of pointer parameters.
func (e *Enc) lenTermFns(li *loopInfo) []lenFn {
	var out []lenFn
	for _, p := range e.fn.Params {
		p := p
		v := e.val(p)
		switch t := p.Type().Underlying().(type) {
		case *types.Slice:
			out = append(out, lenFn{"len(" + p.Name() + ")", func(State) string { return v.c[2] }})
		case *types.Basic:
			if t.Info()&types.IsString != 0 {
				out = append(out, lenFn{"len(" + p.Name() + ")", func(State) string { return app("slen", v.c[0]) }})
			}
		case *types.Pointer:
			s, ok := isStruct(t.Elem())
			if !ok {
				continue
			}
			for i := 0; i < s.NumFields(); i++ {
				f := s.Field(i)
				loc := &Loc{field: true, ref: v.c[0], skey: structKey(t.Elem()), fname: f.Name(), typ: f.Type()}
				switch ft := f.Type().Underlying().(type) {
				case *types.Slice:
					out = append(out, lenFn{"len(" + p.Name() + "." + f.Name() + ")", func(s State) string { return e.loadLoc(&s, loc).c[2] }})
				case *types.Basic:
					if ft.Info()&types.IsString != 0 {
						out = append(out, lenFn{"len(" + p.Name() + "." + f.Name() + ")", func(s State) string { return app("slen", e.loadLoc(&s, loc).c[0]) }})
					}
				}
			}
		}
	}
	return out
}

// ---------------- queries ----------------

func (e *Enc) query(o *Obligation, getModel bool) string { return e.queryExtra2(o, getModel, nil) }

func (e *Enc) queryExtra(o *Obligation, extra []string) string { return e.queryExtra2(o, false, extra) }

func (e *Enc) queryExtra2(o *Obligation, getModel bool, extra []string) string {
	var sb strings.Builder
	sb.WriteString(prelude)
	for _, d := range e.decls {
		sb.WriteString(d)
		sb.WriteByte('\n')
	}
	for _, c := range e.cons[:o.NCons] {
		fmt.Fprintf(&sb, "(assert %s)\n", c)
	}
	for _, c := range e.cands {
		if c.alive {
			fmt.Fprintf(&sb, "(assert %s)\n", c.flag)
		}
	}
	for _, x := range extra {
		fmt.Fprintf(&sb, "(assert %s)\n", x)
	}
	fmt.Fprintf(&sb, "(assert (not %s))\n(check-sat)\n", o.Goal)
	if getModel && len(e.inputs) > 0 {
		fmt.Fprintf(&sb, "(get-model)\n")
	}
	return sb.String()
}

func posOf(prog *ssa.Program, p token.Pos) string { return prog.Fset.Position(p).String() }
