package main

import (
	"fmt"
	"go/types"

	"golang.org/x/tools/go/ssa"
)

// ---- map model: has : Ref -> (K -> Bool), val_leaf : Ref -> (K -> S) ----

type mapInfo struct {
	ok    bool
	ksort string
	key   string // type key
	vt    types.Type
	hasN  string
}

func mapInfoOf(t types.Type) mapInfo {
	mt, ok := t.Underlying().(*types.Map)
	if !ok {
		return mapInfo{}
	}
	kl := leaves(mt.Key())
	if len(kl) != 1 || isFPSort(kl[0].sort) {
		return mapInfo{}
	}
	k := typeKey(mt.Key()) + "=>" + typeKey(mt.Elem())
	return mapInfo{ok: true, ksort: kl[0].sort, key: k, vt: mt.Elem(), hasN: "MH|" + k}
}

func (mi mapInfo) valN(l leaf) string { return "MV|" + mi.key + "|" + l.path }

func (e *Enc) marr(st *State, name, ksort, vsort string) string {
	full := "(Array Ref (Array " + ksort + " " + vsort + "))"
	arrSorts[name] = full
	if s, ok := st.m[name]; ok {
		return e.touch(s)
	}
	return e.epochArr(st, name, full)
}

func (e *Enc) setMarr(st *State, name, ksort, vsort, term string) {
	full := "(Array Ref (Array " + ksort + " " + vsort + "))"
	arrSorts[name] = full
	e.n++
	sym := e.declare(fmt.Sprintf("%s@%d", name, e.n), full)
	e.assume(eq(sym, term))
	st.m[name] = sym
}

func mapWriteNames(t types.Type, out map[string]bool) bool {
	mi := mapInfoOf(t)
	if !mi.ok {
		return false
	}
	out[mi.hasN] = true
	arrSorts[mi.hasN] = "(Array Ref (Array " + mi.ksort + " Bool))"
	for _, l := range leaves(mi.vt) {
		out[mi.valN(l)] = true
		arrSorts[mi.valN(l)] = "(Array Ref (Array " + mi.ksort + " " + l.sort + "))"
	}
	return true
}

func (e *Enc) mapHas(st *State, mi mapInfo, m, k string) string {
	return and(not(eq(m, "null")), sel(sel(e.marr(st, mi.hasN, mi.ksort, "Bool"), m), k))
}

func (e *Enc) mapGet(st *State, mi mapInfo, m, k string) *Val {
	v := &Val{typ: mi.vt}
	for _, l := range leaves(mi.vt) {
		v.c = append(v.c, sel(sel(e.marr(st, mi.valN(l), mi.ksort, l.sort), m), k))
	}
	return v
}

func (e *Enc) mapUpdate(in *ssa.MapUpdate, st *State) {
	m := e.val(in.Map)
	e.oblige("mapnil", exprText(in.Map), in.Pos(), not(eq(m.c[0], "null")))
	mi := mapInfoOf(in.Map.Type())
	if !mi.ok {
		e.havocAll(st)
		return
	}
	k := e.val(in.Key).c[0]
	v := e.val(in.Value)
	h := e.marr(st, mi.hasN, mi.ksort, "Bool")
	e.setMarr(st, mi.hasN, mi.ksort, "Bool", sto(h, m.c[0], sto(sel(h, m.c[0]), k, "true")))
	for j, l := range leaves(mi.vt) {
		a := e.marr(st, mi.valN(l), mi.ksort, l.sort)
		e.setMarr(st, mi.valN(l), mi.ksort, l.sort, sto(a, m.c[0], sto(sel(a, m.c[0]), k, v.c[j])))
	}
}

func (e *Enc) mapDelete(mt types.Type, m, k string, st *State) {
	mi := mapInfoOf(mt)
	if !mi.ok {
		e.havocAll(st)
		return
	}
	h := e.marr(st, mi.hasN, mi.ksort, "Bool")
	e.setMarr(st, mi.hasN, mi.ksort, "Bool", ite(eq(m, "null"), h, sto(h, m, sto(sel(h, m), k, "false"))))
}

func (e *Enc) makeMap(in *ssa.MakeMap, st *State) {
	ref := e.allocRef(st)
	mi := mapInfoOf(in.Type())
	if mi.ok {
		h := e.marr(st, mi.hasN, mi.ksort, "Bool")
		e.setMarr(st, mi.hasN, mi.ksort, "Bool", sto(h, ref, fmt.Sprintf("((as const (Array %s Bool)) false)", mi.ksort)))
	}
	e.set(in, &Val{typ: in.Type(), c: []string{ref}})
}

func (e *Enc) mapLookup(in *ssa.Lookup, st *State) bool {
	mi := mapInfoOf(in.X.Type())
	if !mi.ok {
		return false
	}
	m := e.val(in.X).c[0]
	k := e.val(in.Index).c[0]
	has := e.mapHas(st, mi, m, k)
	got := e.wfLoaded(e.mapGet(st, mi, m, k))
	zero := zeroVal(mi.vt)
	out := &Val{typ: in.Type()}
	for j := range got.c {
		out.c = append(out.c, ite(has, got.c[j], zero.c[j]))
	}
	if in.CommaOk {
		out.c = append(out.c, has)
	}
	e.set(in, out)
	return true
}

// ---- range over map with a ghost visited set ----

type rangeInfo struct {
	mi      mapInfo
	m       string
	visName string
}

func (e *Enc) visSort(ri *rangeInfo) string { return "(Array " + ri.mi.ksort + " Bool)" }

func (e *Enc) visited(st *State, ri *rangeInfo) string {
	arrSorts[ri.visName] = e.visSort(ri)
	if s, ok := st.m[ri.visName]; ok {
		return s
	}
	return e.epochArr(st, ri.visName, e.visSort(ri))
}

func (e *Enc) rangeMap(in *ssa.Range, st *State) bool {
	mi := mapInfoOf(in.X.Type())
	if !mi.ok {
		return false
	}
	ri := &rangeInfo{mi: mi, m: e.val(in.X).c[0], visName: fmt.Sprintf("RV|%s|%s", fname(e.fn), in.Name())}
	e.ranges[in] = ri
	arrSorts[ri.visName] = e.visSort(ri)
	e.n++
	sym := e.declare(fmt.Sprintf("%s@%d", ri.visName, e.n), e.visSort(ri))
	e.assume(eq(sym, fmt.Sprintf("((as const (Array %s Bool)) false)", mi.ksort)))
	st.m[ri.visName] = sym
	e.set(in, &Val{typ: in.Type(), c: []string{"null"}})
	return true
}

func (e *Enc) nextMap(in *ssa.Next, st *State) bool {
	rg, ok := in.Iter.(*ssa.Range)
	if !ok {
		return false
	}
	ri := e.ranges[rg]
	if ri == nil {
		return false
	}
	mi := ri.mi
	okc := e.fresh("next.ok", "Bool")
	k := e.fresh("next.k", mi.ksort)
	vis := e.visited(st, ri)
	has := e.mapHas(st, mi, ri.m, k)
	got := e.mapGet(st, mi, ri.m, k)
	e.assumeHere(imp(okc, and(has, not(sel(vis, k)))))
	q := fmt.Sprintf("(forall ((kk %s)) (=> %s (select %s kk)))", mi.ksort, e.mapHas(st, mi, ri.m, "kk"), vis)
	e.assumeHere(imp(not(okc), q))
	e.n++
	nv := e.declare(fmt.Sprintf("%s@%d", ri.visName, e.n), e.visSort(ri))
	e.assume(eq(nv, ite(okc, sto(vis, k, "true"), vis)))
	st.m[ri.visName] = nv
	// tuple (ok, k, v)
	out := &Val{typ: in.Type(), c: []string{okc, k}}
	tt := in.Type().(*types.Tuple)
	if tt.Len() == 3 {
		vl := leaves(tt.At(2).Type())
		if len(vl) == len(got.c) {
			out.c = append(out.c, got.c...)
		} else {
			out.c = append(out.c, e.freshVal("next.v", tt.At(2).Type()).c...)
		}
	}
	e.set(in, out)
	return true
}
