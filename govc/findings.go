package main

import (
	"bufio"
	"os"
	"path/filepath"
	"strings"
	"time"
)

// Finding is one line of /verif/KNOWN_FINDINGS.txt:
//   open: property=C01 obligation=<name or prefix*> carve={<contract expression over the function's parameters>} what=<text>
//   fixed: property=C04 commit=<sha> what=<text>
// An open entry identifies a genuine defect by obligation and by a carve-out predicate over the obligation's inputs:
// the failing obligation is re-asked with the carve-out excluded; only if it then discharges is the failure the
// known one. A fixed entry suppresses nothing.
type Finding struct {
	Status     string
	Property   string
	Obligation string
	Carve      string
	What       string
	Commit     string
}

func loadFindings(prop string) []*Finding {
	f, err := os.Open(filepath.Join(verifRoot, "KNOWN_FINDINGS.txt"))
	if err != nil {
		return nil
	}
	defer f.Close()
	var out []*Finding
	sc := bufio.NewScanner(f)
	sc.Buffer(make([]byte, 1<<20), 1<<20)
	for sc.Scan() {
		line := strings.TrimSpace(sc.Text())
		if line == "" || strings.HasPrefix(line, "#") {
			continue
		}
		st, rest, ok := strings.Cut(line, ":")
		if !ok {
			continue
		}
		fd := &Finding{Status: strings.TrimSpace(st)}
		rest = strings.TrimSpace(rest)
		if i := strings.Index(rest, " what="); i >= 0 {
			fd.What = strings.TrimSpace(rest[i+6:])
			rest = rest[:i]
		}
		if i := strings.Index(rest, " carve={"); i >= 0 {
			j := strings.LastIndex(rest, "}")
			if j > i {
				fd.Carve = rest[i+8 : j]
				rest = rest[:i] + rest[j+1:]
			}
		}
		for _, kv := range strings.Fields(rest) {
			k, v, _ := strings.Cut(kv, "=")
			switch k {
			case "property":
				fd.Property = v
			case "obligation":
				fd.Obligation = v
			case "commit":
				fd.Commit = v
			}
		}
		if fd.Property == prop {
			out = append(out, fd)
		}
	}
	return out
}

func matchFinding(fs []*Finding, f *Failure, timeout time.Duration) *Finding {
	for _, fd := range fs {
		if fd.Status != "open" {
			continue
		}
		if strings.HasSuffix(fd.Obligation, "*") {
			if !strings.HasPrefix(f.Name, strings.TrimSuffix(fd.Obligation, "*")) {
				continue
			}
		} else if fd.Obligation != f.Name {
			continue
		}
		if fd.Carve == "" {
			return fd
		}
		enc := f.Run.Enc
		ok := func() (ok bool) {
			defer func() {
				if recover() != nil {
					ok = false
				}
			}()
			ex, err := parseExpr(fd.Carve)
			if err != nil {
				return false
			}
			env := &Env{e: enc, st: &enc.entry, old: &enc.entry, vars: enc.params}
			carve := env.formula(ex)
			r := race(enc.queryExtra(f.Ob, []string{not(carve)}), timeout)
			return r.Status == "unsat"
		}()
		if ok {
			return fd
		}
	}
	return nil
}
