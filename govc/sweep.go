package main

import (
	"flag"
	"os"
	"runtime/debug"
	"fmt"
	"strings"
	"time"
)

// cmdSweep: zero-annotation safety sweep over packages (diagnostic tool used while writing contracts).
func cmdSweep(args []string) int {
	fs := flag.NewFlagSet("sweep", flag.ExitOnError)
	dir := fs.String("dir", "/repo/v2", "module dir")
	only := fs.String("func", "", "substring filter")
	verbose := fs.Bool("v", false, "")
	fs.Parse(args)
	name := "v2"
	if *dir == "/repo" {
		name = "root"
	}
	m, err := loadModule(name, *dir, fs.Args(), "")
	if err != nil {
		fmt.Println(err)
		return 2
	}
	total, ok := 0, 0
	for _, fn := range allFunctions(m.Prog, m.SPkgs) {
		if fn.Blocks == nil || (*only != "" && !strings.Contains(fname(fn), *only)) {
			continue
		}
		r := &FuncRun{Mod: m, Fn: fn, Name: name + "/" + fname(fn), Cfg: FucCfg{Safety: true}}
		r.Enc = newEnc(m.Prog, fn, m.DB)
		r.Enc.mod = name
		r.Enc.safety = true
		func() {
			defer func() {
				if x := recover(); x != nil {
					r.EncErr = fmt.Sprint(x)
					if os.Getenv("GOVC_DEBUG") != "" {
						fmt.Println(string(debug.Stack()))
					}
				}
			}()
			r.Enc.run()
		}()
		if r.EncErr != "" {
			fmt.Printf("FUNC %s: encoder error: %s\n", r.Name, r.EncErr)
			continue
		}
		solveFunc(r, 5*time.Second, 5*time.Second, false)
		fmt.Printf("FUNC %s: %d blocks %d constraints, inferred %v\n", r.Name, len(fn.Blocks), len(r.Enc.cons), r.Kept)
		for _, u := range dedupe(r.Enc.unsup) {
			fmt.Printf("   outside subset: %s\n", u)
		}
		for _, c := range r.Covers {
			if c.Result.Status == "unsat" {
				fmt.Printf("   COVER-DEAD %s\n", c.Name)
			}
		}
		for _, o := range r.Enc.obls {
			if o.Houdini >= 0 && !r.Enc.cands[o.Houdini].user || !o.Owned {
				continue
			}
			total++
			if o.Result.Status == "unsat" {
				ok++
				if *verbose {
					fmt.Printf("   ok    %s\n", o.Name)
				}
			} else {
				fmt.Printf("   %-5s %s (%s)\n", strings.ToUpper(o.Result.Status), o.Name, o.Pos)
				if o.Result.Status == "sat" {
					fmt.Print(modelSummary(o.Result.Out))
				}
			}
		}
	}
	fmt.Printf("TOTAL %d obligations, %d discharged\n", total, ok)
	return 0
}

func cmdSelftest(args []string) int {
	fmt.Println("selftest: see /verif/selftest/run.sh")
	return 0
}
