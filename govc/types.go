package main

import (
	"fmt"
	"go/types"
	"strings"
)

// A Val is a flat list of SMT terms ("leaves") plus the Go type that gives them meaning.
type Val struct {
	typ types.Type
	c   []string
}

type leaf struct {
	path string
	sort string
}

const (
	fp64 = "(_ FloatingPoint 11 53)"
	fp32 = "(_ FloatingPoint 8 24)"
)

func isFPSort(s string) bool { return s == fp64 || s == fp32 }

func typeKey(t types.Type) string {
	s := types.TypeString(t, func(p *types.Package) string { return p.Name() })
	if b, ok := t.(*types.Basic); ok && b.Kind() <= types.UnsafePointer && b.Kind() > 0 {
		s = types.Typ[b.Kind()].Name()
	}
	r := strings.NewReplacer(" ", "_", "|", "!", "(", "<", ")", ">", ";", ",", "[]byte", "[]uint8")
	return r.Replace(s)
}

func isStruct(t types.Type) (*types.Struct, bool) {
	s, ok := t.Underlying().(*types.Struct)
	return s, ok
}

// leaves flattens a type into its SMT components.
func leaves(t types.Type) []leaf {
	switch u := t.Underlying().(type) {
	case *types.Basic:
		switch {
		case u.Info()&types.IsBoolean != 0:
			return []leaf{{"", "Bool"}}
		case u.Info()&types.IsString != 0:
			return []leaf{{"", "Str"}}
		case u.Info()&types.IsInteger != 0:
			return []leaf{{"", "Int"}}
		case u.Info()&types.IsFloat != 0:
			if u.Kind() == types.Float32 {
				return []leaf{{"", fp32}}
			}
			return []leaf{{"", fp64}}
		case u.Kind() == types.UnsafePointer:
			return []leaf{{"", "Ref"}}
		case u.Kind() == types.UntypedNil:
			return []leaf{{"", "Ref"}}
		}
		return []leaf{{"", "Int"}}
	case *types.Pointer, *types.Map, *types.Chan, *types.Signature:
		return []leaf{{"", "Ref"}}
	case *types.Slice:
		return []leaf{{"base", "Ref"}, {"off", "Int"}, {"len", "Int"}, {"cap", "Int"}}
	case *types.Interface:
		if _, ok := t.(*types.TypeParam); ok {
			return []leaf{{"", "Int"}}
		}
		return []leaf{{"tag", "Int"}, {"val", "Ref"}}
	case *types.Struct:
		var ls []leaf
		for i := 0; i < u.NumFields(); i++ {
			for _, l := range leaves(u.Field(i).Type()) {
				ls = append(ls, leaf{u.Field(i).Name() + "." + l.path, l.sort})
			}
		}
		return ls
	case *types.Tuple:
		var ls []leaf
		for i := 0; i < u.Len(); i++ {
			for _, l := range leaves(u.At(i).Type()) {
				ls = append(ls, leaf{fmt.Sprintf("%d.%s", i, l.path), l.sort})
			}
		}
		return ls
	case *types.Array:
		return []leaf{{"", "Ref"}}
	}
	return []leaf{{"", "Int"}}
}

func nleaves(t types.Type) int { return len(leaves(t)) }

// fieldRange returns the leaf range [lo,hi) of field i inside struct s.
func fieldRange(s *types.Struct, i int) (int, int) {
	lo := 0
	for j := 0; j < i; j++ {
		lo += nleaves(s.Field(j).Type())
	}
	return lo, lo + nleaves(s.Field(i).Type())
}

func tupleRange(t *types.Tuple, i int) (int, int) {
	lo := 0
	for j := 0; j < i; j++ {
		lo += nleaves(t.At(j).Type())
	}
	return lo, lo + nleaves(t.At(i).Type())
}

func zeroOfSort(s string) string {
	switch s {
	case "Bool":
		return "false"
	case "Int":
		return "0"
	case "Str":
		return "str!empty"
	case "Ref":
		return "null"
	case fp64:
		return "(_ +zero 11 53)"
	case fp32:
		return "(_ +zero 8 24)"
	}
	panic("zeroOfSort " + s)
}

func zeroVal(t types.Type) *Val {
	v := &Val{typ: t}
	for _, l := range leaves(t) {
		v.c = append(v.c, zeroOfSort(l.sort))
	}
	return v
}

const prelude = `(set-option :produce-models true)
(set-logic ALL)
(declare-datatypes ((Ref 0)) (((null) (obj (oid Int)) (elem (ebase Ref) (eidx Int)) (emb (eobj Ref) (efld Int)) (box (bid Int)))))
(declare-sort Str 0)
(declare-fun slen (Str) Int)
(declare-fun sat (Str Int) Int)
(declare-const str!empty Str)
(assert (= (slen str!empty) 0))
(assert (forall ((s Str)) (! (and (>= (slen s) 0) (<= (slen s) 72057594037927936)) :pattern ((slen s)))))
(assert (forall ((s Str) (i Int)) (! (and (>= (sat s i) 0) (< (sat s i) 256)) :pattern ((sat s i)))))
`
