package main

import (
	"regexp"
	"fmt"
	"math"
	"go/constant"
	"go/token"
	"go/types"
	"sort"
	"strings"

	"golang.org/x/tools/go/ssa"
)

// ---------------- heap state ----------------

type State struct {
	m     map[string]string
	epoch int
	unesc map[*ssa.Alloc]string // local allocations whose address has not left this function yet -> their Ref term
}

func (s State) clone() State {
	n := State{m: make(map[string]string, len(s.m)), epoch: s.epoch, unesc: make(map[*ssa.Alloc]string, len(s.unesc))}
	for k, v := range s.m {
		n.m[k] = v
	}
	for k, v := range s.unesc {
		n.unesc[k] = v
	}
	return n
}

type Loc struct {
	field bool   // scalar field of a struct object
	ref   string // object ref (for field: the struct object)
	skey  string // struct key (field)
	fname string // field name (field)
	typ   types.Type
}

type Obligation struct {
	Name    string
	Kind    string
	Desc    string
	Pos     token.Position
	NCons   int    // number of constraints (prefix) in scope
	Goal    string // formula that must be valid under the prefix
	Houdini int    // >=0: candidate index this obligation belongs to (entry/step check)
	Owned   bool   // counted and reported under the property being checked
	Clause  *Clause
	Block   int
	Result  SolverResult
	Agree   *SolverResult // thorough tier: second back end
	Detail  string        // human-readable reason (syntactic verdicts)
}

type candidate struct {
	flag  string
	desc  string
	alive bool
	user  bool // user-supplied invariant (never dropped; failure is an obligation failure)
}

type loopInfo struct {
	header  *ssa.BasicBlock
	body    map[*ssa.BasicBlock]bool
	ordinal int
	writes  map[string]bool
	all     bool
	preserve []string
	localOnly map[string][]*ssa.Alloc
	// evaluation of candidates: functions from (phi substitution, state) to formula
	cands []func(sub map[ssa.Value]*Val, st State) string
	cidx  []int // index into Enc.cands
}

type Enc struct {
	prog     *ssa.Program
	fn       *ssa.Function
	db       *ContractDB
	con      *Contract
	decls    []string
	declared map[string]bool
	cons     []string
	vals     map[ssa.Value]*Val
	locs     map[ssa.Value]*Loc
	n        int
	endState map[*ssa.BasicBlock]State
	reach    map[*ssa.BasicBlock]string
	entry    State
	obls     []*Obligation
	cands    []*candidate
	loops    map[*ssa.BasicBlock]*loopInfo
	unsup    []string
	kindN    map[string]int
	tags     map[string]int
	inputs   []string
	params   map[string]*Val
	effects  map[*ssa.Function]*effect
	rets     []retInfo
	lenTerms []string
	curBlock *ssa.BasicBlock
	ranges   map[*ssa.Range]*rangeInfo
	mod      string // module label: "v2" or "root"
	prop     string // property being checked ("" = sweep: everything active)
	safety   bool   // safety obligations of this function are owned by prop
	assumes  []string
	pendingFrame map[string]string
	pendingOld   map[string]string
	quantWF   bool
	preserved map[int]*preserveInfo
	merges   map[int]*mergeInfo
	dyn      map[ssa.Value]types.Type // interface-typed parameters specialised to a dynamic type
	spec     map[string]string        // parameter name -> type string (from the property config)
	litOf       map[string]string // SMT symbol of a string literal -> its Go value
	sortedByAdded bool
	assertHit   map[int]bool
	birth       map[string][2]string // array incarnation -> allocation watermarks (own, callee) no later than which it came into being
	cellVars    map[string]ssa.Value
	storeOrd    map[*ssa.Store]int
	callRegion  int
	siteOrd     map[*ssa.Call]int
	lastOrd     map[string]int
	siteResults map[string]*Val // results of call sites, for resultof("callee#n") in contracts
	module     *Module
	ghostSites map[string]bool // call sites whose execution is tracked by a ghost flag (reached("callee#n"))
	loopWM     map[int]string  // loop ordinal -> allocation watermark at the loop head (iterfresh(x, N))
	iterSites  map[string]int  // call sites tracked per iteration (thisiter("callee#n") in a step clause of loop N) -> loop ordinal
	effTaint bool
	effDepth int
	specName string
	skipKinds []string
	tinv     []*Clause
	freeRef  map[string]*Val // closure variables captured by reference: name -> pointer to the cell
}

func (e *Enc) fnName() string {
	if e.specName != "" {
		return e.specName
	}
	return fname(e.fn)
}

func (e *Enc) active(c *Clause) bool {
	if e.prop == "" || len(c.Tags) == 0 {
		return true
	}
	for _, t := range c.Tags {
		if t == e.prop {
			return true
		}
	}
	return false
}

// note records a modelling assumption used while encoding this function (goes into the evidence).
func (e *Enc) note(format string, a ...any) { e.assumes = append(e.assumes, fmt.Sprintf(format, a...)) }


type retInfo struct {
	b   *ssa.BasicBlock
	res []*Val
	st  State
}

func (e *Enc) unsupported(format string, a ...any) {
	e.unsup = append(e.unsup, fmt.Sprintf(format, a...))
}

func (e *Enc) declare(name, sort string) string {
	name = strings.ReplaceAll(name, "|", ":")
	q := "|" + name + "|"
	if !e.declared[name] {
		e.declared[name] = true
		e.decls = append(e.decls, fmt.Sprintf("(declare-const %s %s)", q, sort))
	}
	return q
}

func (e *Enc) declareFun(name, sig string) string {
	name = strings.ReplaceAll(name, "|", ":")
	q := "|" + name + "|"
	if !e.declared[name] {
		e.declared[name] = true
		e.decls = append(e.decls, fmt.Sprintf("(declare-fun %s %s)", q, sig))
	}
	return q
}

func (e *Enc) fresh(prefix, sort string) string {
	e.n++
	return e.declare(fmt.Sprintf("%s!%d", prefix, e.n), sort)
}

func (e *Enc) freshVal(prefix string, t types.Type) *Val {
	v := &Val{typ: t}
	for _, l := range leaves(t) {
		term := e.fresh(prefix+"."+l.path, l.sort)
		v.c = append(v.c, term)
		e.wellFormedLeaf(term, l, t)
	}
	e.wellFormedVal(v)
	return v
}

func (e *Enc) wellFormedLeaf(term string, l leaf, t types.Type) {}

// wellFormedVal adds the type invariants of bit-valid Go values (slice header sanity, integer ranges).
func (e *Enc) wellFormedVal(v *Val) {
	switch u := v.typ.Underlying().(type) {
	case *types.Slice:
		e.assume(and(app("<=", "0", v.c[1]), app("<=", "0", v.c[2]), app("<=", v.c[2], v.c[3]), app("<=", v.c[3], "72057594037927936"),
			imp(eq(v.c[0], "null"), eq(v.c[3], "0"))))
	case *types.Basic:
		if u.Info()&types.IsInteger != 0 {
			lo, hi := intRange(u)
			e.assume(and(app("<=", lo, v.c[0]), app("<=", v.c[0], hi)))
		}
	case *types.Struct:
		for i := 0; i < u.NumFields(); i++ {
			lo, hi := fieldRange(u, i)
			e.wellFormedVal(&Val{typ: u.Field(i).Type(), c: v.c[lo:hi]})
		}
	case *types.Tuple:
		for i := 0; i < u.Len(); i++ {
			lo, hi := tupleRange(u, i)
			e.wellFormedVal(&Val{typ: u.At(i).Type(), c: v.c[lo:hi]})
		}
	}
}

func intRange(b *types.Basic) (string, string) {
	switch b.Kind() {
	case types.Int8:
		return "(- 128)", "127"
	case types.Int16:
		return "(- 32768)", "32767"
	case types.Int32:
		return "(- 2147483648)", "2147483647"
	case types.Uint8:
		return "0", "255"
	case types.Uint16:
		return "0", "65535"
	case types.Uint32:
		return "0", "4294967295"
	case types.Uint, types.Uint64, types.Uintptr:
		return "0", "18446744073709551615"
	}
	return "(- 9223372036854775808)", "9223372036854775807"
}

func (e *Enc) assume(f string) {
	if f != "true" {
		e.cons = append(e.cons, f)
	}
}

// guard wraps a fact so that it only holds when the current block is reached.
func (e *Enc) assumeHere(f string) { e.assume(imp(e.reach[e.curBlock], f)) }

func (e *Enc) oblige(kind, desc string, pos token.Pos, goal string) *Obligation {
	k := e.kindN[kind+desc]
	e.kindN[kind+desc]++
	o := &Obligation{
		Name:    fmt.Sprintf("%s/%s#%s:%s@%d", e.mod, e.fnName(), kind, desc, k),
		Kind:    kind,
		Desc:    desc,
		Pos:     e.prog.Fset.Position(pos),
		NCons:   len(e.cons),
		Goal:    imp(e.reach[e.curBlock], goal),
		Houdini: -1,
		Owned:   e.safety && !contains(e.skipKinds, kind),
		Block:   e.curBlock.Index,
	}
	if e.safety && contains(e.skipKinds, kind) {
		e.note("#%s obligations of this function are not claimed (configured skip)", kind)
	}
	e.obls = append(e.obls, o)
	// assert-then-assume
	e.assume(o.Goal)
	return o
}

// obligeClause is oblige for an obligation that stems from a contract clause; ownership follows the clause's tags.
// An inactive clause (tagged for other properties only) is neither asserted nor assumed.
func (e *Enc) obligeClause(kind string, c *Clause, pos token.Pos, goal string) *Obligation {
	if !e.active(c) {
		return nil
	}
	o := e.oblige(kind, shorten(c.Src), pos, goal)
	o.Owned = true
	// a configured skip of callee preconditions ("pre"): listed as an assumption, not claimed
	if strings.HasPrefix(kind, "pre:") && contains(e.skipKinds, "pre") {
		o.Owned = false
		e.note("preconditions of callees are not claimed for this function (configured skip): %s", shorten(c.Src))
	}
	o.Clause = c
	return o
}

// ---------------- heap arrays ----------------

// stampBirth: every array incarnation current in st whose birth is not yet recorded came into being no later than now.
func (e *Enc) stampBirth(st *State) {
	wm, cw := e.watermark(st), e.calleeWatermark(st)
	for n, sym := range st.m {
		if strings.HasPrefix(n, "G|") {
			continue
		}
		if _, ok := e.birth[sym]; !ok {
			e.birth[sym] = [2]string{wm, cw}
		}
	}
}

// birthOf: the watermarks bounding the objects a value loaded from the given select-term can designate.
func (e *Enc) birthOf(term string, st *State) (string, string) {
	if strings.HasPrefix(term, "(select |") {
		rest := term[len("(select "):]
		if i := strings.Index(rest[1:], "|"); i >= 0 {
			if b, ok := e.birth[rest[:i+2]]; ok {
				return b[0], b[1]
			}
		}
	}
	return e.watermark(st), e.calleeWatermark(st)
}

// touch materialises the frame axiom of an array incarnation the first time the incarnation is used.
func (e *Enc) touch(sym string) string {
	if ax, ok := e.pendingFrame[sym]; ok {
		delete(e.pendingFrame, sym)
		e.assume(ax)
		if old, ok := e.pendingOld[sym]; ok {
			e.touch(old)
		}
	}
	return sym
}

func (e *Enc) arr(st *State, name, elemSort string) string {
	arrSorts[name] = "(Array Ref " + elemSort + ")"
	if s, ok := st.m[name]; ok {
		return e.touch(s)
	}
	nm := fmt.Sprintf("%s@E%d", name, st.epoch)
	first := !e.declared[strings.ReplaceAll(nm, "|", ":")]
	a := e.epochArr(st, name, "(Array Ref "+elemSort+")")
	if first && st.epoch == 0 && elemSort == "Ref" {
		// heap closedness at entry: every object reference stored in the pre-state was allocated before entry
		e.assume(fmt.Sprintf("(forall ((r Ref)) (! %s :pattern ((select %s r))))", preExisting(sel(a, "r")), a))
	}
	return a
}

func (e *Enc) setArr(st *State, name, elemSort, newTerm string) {
	arrSorts[name] = "(Array Ref " + elemSort + ")"
	e.n++
	sym := e.declare(fmt.Sprintf("%s@%d", name, e.n), "(Array Ref "+elemSort+")")
	e.assume(eq(sym, newTerm))
	st.m[name] = sym
}

// havocAll forgets the whole heap model (a call into unknown code) - except for the contents of objects that this
// function allocated itself and whose address has not been handed out yet: no other code can reach them.
func (e *Enc) havocAll(st *State) { e.havocAllExcept(st, nil) }

// havocAllPreserving: a call into unknown code that is declared (contract / assumed callback or interface contract)
// to leave the arrays with the given name prefixes alone.
func (e *Enc) havocAllPreserving(st *State, prefixes []string) {
	if len(prefixes) == 0 {
		e.havocAll(st)
		return
	}
	pre := st.clone()
	e.havocAll(st)
	for n, t := range pre.m {
		for _, p := range prefixes {
			if strings.HasPrefix(n, p) {
				st.m[n] = t
			}
		}
	}
	e.preserved[st.epoch] = &preserveInfo{pre: pre, prefixes: prefixes}
}

type preserveInfo struct {
	pre      State
	prefixes []string
	except   map[string]bool
}

func (e *Enc) havocAllExcept(st *State, alsoWritten map[string]bool) {
	pre := st.clone()
	e.n++
	st.epoch = e.n
	st.m = map[string]string{}
	for k, t := range pre.m {
		if strings.HasPrefix(k, "G|") {
			st.m[k] = t
		}
	}
	for a, ref := range pre.unesc {
		t := a.Type().Underlying().(*types.Pointer).Elem()
		e.preserve(&pre, st, ref, t, alsoWritten)
	}
	{
		// unknown code may allocate: its objects exist afterwards
		lo := e.calleeWatermark(&pre)
		hi := e.fresh("cw", "Int")
		e.assume(app(">=", hi, lo))
		arrSorts["G|cw"] = "Int"
		st.m["G|cw"] = hi
	}
}

func (e *Enc) preserve(pre, post *State, ref string, t types.Type, skip map[string]bool) {
	if s, ok := isStruct(t); ok {
		key := structKey(t)
		for i := 0; i < s.NumFields(); i++ {
			f := s.Field(i)
			if _, ok := isStruct(f.Type()); ok {
				e.preserve(pre, post, app("emb", ref, num(int64(i))), f.Type(), skip)
				continue
			}
			for _, l := range leaves(f.Type()) {
				n := "F|" + key + "|" + f.Name() + "|" + l.path
				if skip[n] {
					continue
				}
				e.assume(eq(sel(e.arr(post, n, l.sort), ref), sel(e.arr(pre, n, l.sort), ref)))
			}
		}
		return
	}
	if _, ok := t.Underlying().(*types.Array); ok {
		return
	}
	key := typeKey(t)
	for _, l := range leaves(t) {
		n := "C|" + key + "|" + l.path
		if skip[n] {
			continue
		}
		e.assume(eq(sel(e.arr(post, n, l.sort), ref), sel(e.arr(pre, n, l.sort), ref)))
	}
}

func rootAlloc(v ssa.Value) *ssa.Alloc {
	for {
		switch x := v.(type) {
		case *ssa.Alloc:
			return x
		case *ssa.FieldAddr:
			v = x.X
		case *ssa.IndexAddr:
			if _, ok := x.X.Type().Underlying().(*types.Pointer); ok {
				v = x.X
			} else {
				return nil
			}
		default:
			return nil
		}
	}
}

// escapes lists the local allocations whose address leaves the function's hands at this instruction.
func escapes(in ssa.Instruction) []*ssa.Alloc {
	var out []*ssa.Alloc
	add := func(v ssa.Value) {
		if v == nil {
			return
		}
		if a := rootAlloc(v); a != nil {
			out = append(out, a)
		}
	}
	switch x := in.(type) {
	case *ssa.Store:
		add(x.Val)
	case *ssa.UnOp, *ssa.FieldAddr, *ssa.IndexAddr, *ssa.DebugRef, *ssa.Alloc:
	case *ssa.MapUpdate:
		add(x.Key)
		add(x.Value)
	default:
		for _, op := range in.Operands(nil) {
			if op != nil {
				add(*op)
			}
		}
	}
	return out
}

func (e *Enc) havocArr(st *State, name, elemSort string) {
	arrSorts[name] = "(Array Ref " + elemSort + ")"
	e.n++
	st.m[name] = e.declare(fmt.Sprintf("%s@%d", name, e.n), "(Array Ref "+elemSort+")")
	e.wfArray(name, st.m[name])
}

// wfArray states heap well-formedness for a fresh incarnation of a slice-header leaf array: lengths, offsets and
// capacities stored in the heap are those of bit-valid slices.
func (e *Enc) wfArray(name, sym string) {
	if !e.quantWF {
		return // heap well-formedness is stated per load (ground facts), see wfLoaded
	}
	if arrSorts[name] != "(Array Ref Int)" {
		return
	}
	if strings.HasSuffix(name, "|len") || strings.HasSuffix(name, "|cap") || strings.HasSuffix(name, "|off") {
		e.assume(fmt.Sprintf("(forall ((r Ref)) (! (and (<= 0 (select %s r)) (<= (select %s r) 72057594037927936)) :pattern ((select %s r))))", sym, sym, sym))
	}
}

func structKey(t types.Type) string { return typeKey(t) }

// wfLoaded: a value read from the heap is a bit-valid Go value (slice headers, integer ranges) - the ground form of
// heap well-formedness, stated once per distinct loaded term.
func (e *Enc) wfLoaded(v *Val) *Val {
	if v == nil || len(v.c) == 0 {
		return v
	}
	key := "wfld:" + strings.Join(v.c, ",")
	if !e.declared[key] {
		e.declared[key] = true
		e.wellFormedVal(v)
	}
	return v
}

// loadAt reads a value of type t stored at object ref.
func (e *Enc) loadAt(st *State, ref string, t types.Type) *Val {
	v := &Val{typ: t}
	if s, ok := isStruct(t); ok {
		key := structKey(t)
		for i := 0; i < s.NumFields(); i++ {
			f := s.Field(i)
			if _, ok := isStruct(f.Type()); ok {
				v.c = append(v.c, e.loadAt(st, app("emb", ref, num(int64(i))), f.Type()).c...)
				continue
			}
			for _, l := range leaves(f.Type()) {
				v.c = append(v.c, sel(e.arr(st, "F|"+key+"|"+f.Name()+"|"+l.path, l.sort), ref))
			}
		}
		return v
	}
	key := typeKey(t)
	for _, l := range leaves(t) {
		v.c = append(v.c, sel(e.arr(st, "C|"+key+"|"+l.path, l.sort), ref))
	}
	return v
}

func (e *Enc) storeAt(st *State, ref string, t types.Type, v *Val) {
	if s, ok := isStruct(t); ok {
		key := structKey(t)
		for i := 0; i < s.NumFields(); i++ {
			f := s.Field(i)
			lo, hi := fieldRange(s, i)
			if _, ok := isStruct(f.Type()); ok {
				e.storeAt(st, app("emb", ref, num(int64(i))), f.Type(), &Val{typ: f.Type(), c: v.c[lo:hi]})
				continue
			}
			for j, l := range leaves(f.Type()) {
				n := "F|" + key + "|" + f.Name() + "|" + l.path
				e.setArr(st, n, l.sort, sto(e.arr(st, n, l.sort), ref, v.c[lo+j]))
			}
		}
		return
	}
	key := typeKey(t)
	for j, l := range leaves(t) {
		n := "C|" + key + "|" + l.path
		e.setArr(st, n, l.sort, sto(e.arr(st, n, l.sort), ref, v.c[j]))
	}
}

func (e *Enc) loadLoc(st *State, l *Loc) *Val {
	if l.field {
		v := &Val{typ: l.typ}
		for _, lf := range leaves(l.typ) {
			v.c = append(v.c, sel(e.arr(st, "F|"+l.skey+"|"+l.fname+"|"+lf.path, lf.sort), l.ref))
		}
		return v
	}
	return e.loadAt(st, l.ref, l.typ)
}

func (e *Enc) storeLoc(st *State, l *Loc, v *Val) {
	if l.field {
		for j, lf := range leaves(l.typ) {
			n := "F|" + l.skey + "|" + l.fname + "|" + lf.path
			e.setArr(st, n, lf.sort, sto(e.arr(st, n, lf.sort), l.ref, v.c[j]))
		}
		return
	}
	e.storeAt(st, l.ref, l.typ, v)
}

// arrays written by a store through a location of the given static shape
func writeNames(l *Loc, out map[string]bool) {
	if l.field {
		for _, lf := range leaves(l.typ) {
			out["F|"+l.skey+"|"+l.fname+"|"+lf.path] = true
			arrSorts["F|"+l.skey+"|"+l.fname+"|"+lf.path] = "(Array Ref " + lf.sort + ")"
		}
		return
	}
	namesOfType(l.typ, out)
}

func namesOfType(t types.Type, out map[string]bool) {
	if s, ok := isStruct(t); ok {
		key := structKey(t)
		for i := 0; i < s.NumFields(); i++ {
			f := s.Field(i)
			if _, ok := isStruct(f.Type()); ok {
				namesOfType(f.Type(), out)
				continue
			}
			for _, l := range leaves(f.Type()) {
				out["F|"+key+"|"+f.Name()+"|"+l.path] = true
				arrSorts["F|"+key+"|"+f.Name()+"|"+l.path] = "(Array Ref " + l.sort + ")"
			}
		}
		return
	}
	for _, l := range leaves(t) {
		out["C|"+typeKey(t)+"|"+l.path] = true
		arrSorts["C|"+typeKey(t)+"|"+l.path] = "(Array Ref " + l.sort + ")"
	}
}

func sortOfArr(name string, t types.Type) string { return "" }

// locOf returns the location a pointer-typed SSA value designates.
func (e *Enc) locOf(p ssa.Value) *Loc {
	if l, ok := e.locs[p]; ok {
		return l
	}
	pt, ok := p.Type().Underlying().(*types.Pointer)
	if !ok {
		e.unsupported("locOf non-pointer %s", p.Type())
		return &Loc{ref: "null", typ: types.Typ[types.Int]}
	}
	return &Loc{ref: e.val(p).c[0], typ: pt.Elem()}
}

// ---------------- values ----------------

func (e *Enc) typeTag(t types.Type) string {
	k := typeKey(t)
	if _, ok := e.tags[k]; !ok {
		e.tags[k] = len(e.tags) + 1
	}
	return num(int64(e.tags[k]))
}

func (e *Enc) strLit(s string) string {
	name := fmt.Sprintf("str!lit!%q", s)
	name = strings.ReplaceAll(name, "|", ":")
	if e.declared[name] {
		return "|" + name + "|"
	}
	q := e.declare(name, "Str")
	if e.litOf == nil {
		e.litOf = map[string]string{}
	}
	e.litOf[q] = s
	e.assume(eq(app("slen", q), num(int64(len(s)))))
	for i := 0; i < len(s); i++ {
		e.assume(eq(app("sat", q, num(int64(i))), num(int64(s[i]))))
	}
	return q
}

// strEqLit gives the ground extensionality instance for comparing s with a literal.
func (e *Enc) strEqLit(s string, lit string) string {
	q := e.strLit(lit)
	parts := []string{eq(app("slen", s), num(int64(len(lit))))}
	for i := 0; i < len(lit); i++ {
		parts = append(parts, eq(app("sat", s, num(int64(i))), num(int64(lit[i]))))
	}
	if boundVarRe.MatchString(s) {
		// the term mentions a quantified variable: the defining equivalence must stay inside the quantifier
		return and(parts...)
	}
	e.assume(eq(eq(s, q), and(parts...)))
	return eq(s, q)
}

var boundVarRe = regexp.MustCompile(`\b[qx]\d+![A-Za-z_]`)

func (e *Enc) constVal(c *ssa.Const) *Val {
	t := c.Type()
	if c.Value == nil { // nil or zero value
		return zeroVal(t)
	}
	switch c.Value.Kind() {
	case constant.Bool:
		if constant.BoolVal(c.Value) {
			return &Val{typ: t, c: []string{"true"}}
		}
		return &Val{typ: t, c: []string{"false"}}
	case constant.Int:
		if i, ok := constant.Int64Val(c.Value); ok {
			if b, ok := t.Underlying().(*types.Basic); ok && b.Info()&types.IsFloat != 0 {
				return &Val{typ: t, c: []string{fpLit(float64(i), t)}}
			}
			return &Val{typ: t, c: []string{num(i)}}
		}
		u, _ := constant.Uint64Val(c.Value)
		return &Val{typ: t, c: []string{fmt.Sprintf("%d", u)}}
	case constant.String:
		return &Val{typ: t, c: []string{e.strLit(constant.StringVal(c.Value))}}
	case constant.Float:
		f, _ := constant.Float64Val(c.Value)
		return &Val{typ: t, c: []string{fpLit(f, t)}}
	}
	e.unsupported("const %v", c)
	return e.freshVal("const", t)
}

func (e *Enc) val(v ssa.Value) *Val {
	if x, ok := e.vals[v]; ok {
		return x
	}
	switch v := v.(type) {
	case *ssa.Const:
		return e.constVal(v)
	case *ssa.Global:
		name := "glob!" + v.String()
		ref := app("obj", e.declare(name, "Int"))
		x := &Val{typ: v.Type(), c: []string{ref}}
		e.vals[v] = x
		return x
	case *ssa.Function:
		x := &Val{typ: v.Type(), c: []string{app("box", e.declare("fn!"+v.String(), "Int"))}}
		e.vals[v] = x
		return x
	case *ssa.FreeVar:
		x := e.freshVal("free."+v.Name(), v.Type())
		e.vals[v] = x
		return x
	case *ssa.Builtin:
		return &Val{typ: v.Type(), c: []string{"null"}}
	}
	// value defined in a block not yet visited (should not happen in RPO except via back edges)
	x := e.freshVal("undef."+v.Name(), v.Type())
	e.vals[v] = x
	return x
}

// ---------------- loops ----------------

func (e *Enc) findLoops() (order []*ssa.BasicBlock) {
	fn := e.fn
	e.loops = map[*ssa.BasicBlock]*loopInfo{}
	// back edges
	for _, b := range fn.Blocks {
		for _, s := range b.Succs {
			if s.Dominates(b) {
				li := e.loops[s]
				if li == nil {
					li = &loopInfo{header: s, body: map[*ssa.BasicBlock]bool{s: true}, writes: map[string]bool{}}
					e.loops[s] = li
				}
				// natural loop of back edge b->s
				var stack []*ssa.BasicBlock
				if !li.body[b] {
					li.body[b] = true
					stack = append(stack, b)
				}
				for len(stack) > 0 {
					x := stack[len(stack)-1]
					stack = stack[:len(stack)-1]
					for _, p := range x.Preds {
						if !li.body[p] {
							li.body[p] = true
							stack = append(stack, p)
						}
					}
				}
			}
		}
	}
	// ordinals by source position
	var hs []*loopInfo
	for _, li := range e.loops {
		hs = append(hs, li)
	}
	minPos := func(li *loopInfo) token.Pos {
		m := token.Pos(1 << 60)
		for b := range li.body {
			for _, in := range b.Instrs {
				if p := in.Pos(); p.IsValid() && p < m {
					m = p
				}
			}
		}
		return m
	}
	sort.Slice(hs, func(i, j int) bool { return minPos(hs[i]) < minPos(hs[j]) })
	for i, li := range hs {
		li.ordinal = i
	}
	// reverse postorder ignoring back edges
	seen := map[*ssa.BasicBlock]bool{}
	var post []*ssa.BasicBlock
	var dfs func(b *ssa.BasicBlock)
	dfs = func(b *ssa.BasicBlock) {
		seen[b] = true
		for _, s := range b.Succs {
			if s.Dominates(b) { // back edge
				continue
			}
			if !seen[s] {
				dfs(s)
			}
		}
		post = append(post, b)
	}
	dfs(fn.Blocks[0])
	for i := len(post) - 1; i >= 0; i-- {
		order = append(order, post[i])
	}
	return order
}

func (e *Enc) edgeCond(p, b *ssa.BasicBlock) string {
	r := e.reach[p]
	if iff, ok := p.Instrs[len(p.Instrs)-1].(*ssa.If); ok {
		c := e.val(iff.Cond).c[0]
		if p.Succs[0] == b && p.Succs[1] == b {
			return r
		}
		if p.Succs[0] == b {
			return and(r, c)
		}
		return and(r, not(c))
	}
	return r
}

// mergeStates builds the entry state of b from its (non-back-edge) predecessors.
func (e *Enc) mergeStates(b *ssa.BasicBlock, preds []*ssa.BasicBlock) State {
	if len(preds) == 1 {
		return e.endState[preds[0]].clone()
	}
	names := map[string]bool{}
	for _, p := range preds {
		for n := range e.endState[p].m {
			names[n] = true
		}
	}
	e.n++
	st := State{m: map[string]string{}, epoch: e.n, unesc: map[*ssa.Alloc]string{}}
	for a, r := range e.endState[preds[0]].unesc {
		all := true
		for _, p := range preds[1:] {
			if _, ok := e.endState[p].unesc[a]; !ok {
				all = false
			}
		}
		if all {
			st.unesc[a] = r
		}
	}
	sameEpoch := true
	for _, p := range preds[1:] {
		if e.endState[p].epoch != e.endState[preds[0]].epoch {
			sameEpoch = false
		}
	}
	if sameEpoch {
		st.epoch = e.endState[preds[0]].epoch
	}
	for n := range names {
		srt := e.arrSort(n)
		var incs []string
		same := true
		for _, p := range preds {
			ps := e.endState[p]
			if _, has := ps.m[n]; !has && n == "G|wm" {
				incs = append(incs, "|alloc!0|")
			} else if !has && n == "G|cw" {
				incs = append(incs, "(+ |alloc!0| 1000000000)")
			} else if !has && strings.HasPrefix(n, "G|") {
				incs = append(incs, "false")
			} else {
				incs = append(incs, e.arrRaw(&ps, n, srt))
			}
			if incs[len(incs)-1] != incs[0] {
				same = false
			}
		}
		if same && sameEpoch {
			st.m[n] = incs[0]
			continue
		}
		e.n++
		sym := e.declare(fmt.Sprintf("%s@%d", n, e.n), srt)
		for i, p := range preds {
			e.assume(imp(e.edgeCond(p, b), eq(sym, incs[i])))
		}
		st.m[n] = sym
	}
	if !sameEpoch {
		// arrays not named so far are tied to the predecessors lazily (epochArr)
		mi := &mergeInfo{}
		for _, p := range preds {
			mi.preds = append(mi.preds, e.endState[p])
			mi.conds = append(mi.conds, e.edgeCond(p, b))
		}
		e.merges[st.epoch] = mi
	}
	return st
}

var arrSorts = map[string]string{}

func (e *Enc) arrSort(name string) string { return arrSorts[name] }
func (e *Enc) arrRaw(st *State, name, fullSort string) string {
	if s, ok := st.m[name]; ok {
		return e.touch(s)
	}
	return e.epochArr(st, name, fullSort)
}

// epochArr is the incarnation of an array that has not been written since the state's epoch began. For an epoch that
// was created by merging control-flow predecessors the incarnation is tied, lazily and once, to the predecessors'
// incarnations under their edge conditions (so facts about arrays first mentioned after the join are not lost).
func (e *Enc) epochArr(st *State, name, fullSort string) string {
	nm := fmt.Sprintf("%s@E%d", name, st.epoch)
	key := strings.ReplaceAll(nm, "|", ":")
	if e.declared[key] {
		return "|" + key + "|"
	}
	sym := e.declare(nm, fullSort)
	arrSorts[name] = fullSort
	e.birth[sym] = [2]string{e.watermark(st), e.calleeWatermark(st)}
	if pi, ok := e.preserved[st.epoch]; ok {
		for _, p := range pi.prefixes {
			if strings.HasPrefix(name, p) && !pi.except[name] {
				var inc string
				if x, ok := pi.pre.m[name]; ok {
					inc = x
				} else {
					inc = e.epochArr(&pi.pre, name, fullSort)
				}
				e.assume(eq(sym, inc))
				return sym
			}
		}
	}
	if _, ok := e.merges[st.epoch]; !ok {
		e.wfArray(name, sym)
	}
	if mi, ok := e.merges[st.epoch]; ok {
		for i := range mi.preds {
			ps := mi.preds[i]
			var inc string
			if x, ok := ps.m[name]; ok {
				inc = x
			} else {
				inc = e.epochArr(&ps, name, fullSort)
			}
			e.assume(imp(mi.conds[i], eq(sym, inc)))
		}
	}
	return sym
}

type mergeInfo struct {
	preds []State
	conds []string
}

// fpLit: the IEEE-754 value of a Go floating-point constant as an SMT FloatingPoint literal (exact bits).
func fpLit(f float64, t types.Type) string {
	if b, ok := t.Underlying().(*types.Basic); ok && b.Kind() == types.Float32 {
		bits := math.Float32bits(float32(f))
		return fmt.Sprintf("(fp #b%01b #b%08b #b%023b)", bits>>31, (bits>>23)&0xff, bits&0x7fffff)
	}
	bits := math.Float64bits(f)
	return fmt.Sprintf("(fp #b%01b #b%011b #b%052b)", bits>>63, (bits>>52)&0x7ff, bits&0xfffffffffffff)
}
