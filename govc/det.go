package main

import (
	"fmt"
	"go/token"
	"go/types"
	"sort"
	"strings"

	"golang.org/x/tools/go/ssa"
)

// Determinism ("value-purity") of a function: its results and the memory it writes are a function of the VALUES it is
// given - not of map iteration order, pointer identity, goroutine scheduling, time, randomness or mutable globals.
// Go code is deterministic except for a short list of constructs; the claim `deterministic` on a contract is checked by
// looking for them in the body and in every module function it calls (transitively). The verdict is an obligation
// (#frame:det) decided syntactically, like #frame:pure.
//
// Flagged:  range over a map, select, go, defer of unknown code, conversion between pointers and integers / unsafe.Pointer,
//           ==/!= between two non-nil pointer / channel / func operands (identity, not value), reads of package-level
//           variables that are written anywhere outside package initialisers, calls to functions outside the module that
//           are not listed as deterministic below, dynamic calls that are not a declared-pure callback / interface method.
var detAllow = map[string]bool{
	"math.Float64bits": true, "math.Float32bits": true, "math.Float64frombits": true, "math.Float32frombits": true,
	"math.IsNaN": true, "math.IsInf": true, "math.Inf": true, "math.NaN": true,
	"(*strings.Builder).WriteByte": true, "(*strings.Builder).WriteString": true, "(*strings.Builder).String": true, "(*strings.Builder).Grow": true, "(*strings.Builder).Len": true,
	"fmt.Sprintf": true, "bytes.Equal": true, "strings.Compare": true, "sort.Slice": true, "sort.Strings": true, "sort.Sort": true,
}

func (e *Enc) detReasons(fn *ssa.Function, seen map[*ssa.Function]bool, allowMapRange bool) []string {
	if seen[fn] {
		return nil
	}
	seen[fn] = true
	var out []string
	add := func(pos token.Pos, f string, a ...any) {
		p := e.fn.Prog.Fset.Position(pos)
		out = append(out, fmt.Sprintf("%s (%s:%d)", fmt.Sprintf(f, a...), shortFile(p.Filename), p.Line))
	}
	isPtrLike := func(t types.Type) bool {
		switch t.Underlying().(type) {
		case *types.Pointer, *types.Chan, *types.Signature:
			return true
		}
		return false
	}
	isNil := func(v ssa.Value) bool {
		c, ok := v.(*ssa.Const)
		return ok && c.Value == nil
	}
	for _, b := range fn.Blocks {
		for _, in := range b.Instrs {
			switch x := in.(type) {
			case *ssa.Range:
				if _, ok := x.X.Type().Underlying().(*types.Map); ok {
					if !allowMapRange {
						add(x.Pos(), "iterates over a map (order is random)")
					} else if p := orderFreeLeak(fn, x); p != nil {
						// `orderfree`: the iteration may fill per-entry slots, but must not touch anything the caller
						// handed in other than the map itself and declared callbacks
						add(x.Pos(), "map iteration body uses parameter %s (order-dependent accumulation)", p.Name())
					}
				}
			case *ssa.Select:
				add(x.Pos(), "select")
			case *ssa.Go:
				add(x.Pos(), "go statement")
			case *ssa.Convert:
				from, to := x.X.Type().Underlying(), x.Type().Underlying()
				_, fp := from.(*types.Pointer)
				_, tp := to.(*types.Pointer)
				fb, _ := from.(*types.Basic)
				tb, _ := to.(*types.Basic)
				if (fp || tp) || (fb != nil && fb.Kind() == types.UnsafePointer) || (tb != nil && tb.Kind() == types.UnsafePointer) {
					add(x.Pos(), "pointer/integer conversion")
				}
			case *ssa.BinOp:
				if (x.Op == token.EQL || x.Op == token.NEQ) && isPtrLike(x.X.Type()) && !isNil(x.X) && !isNil(x.Y) {
					add(x.Pos(), "compares two pointers (identity, not value)")
				}
			case *ssa.UnOp:
				if g, ok := x.X.(*ssa.Global); ok && x.Op == token.MUL && e.globalWritten(g) {
					add(x.Pos(), "reads mutable package variable %s", g.Name())
				}
			case ssa.CallInstruction:
				c := x.Common()
				if _, isDefer := in.(*ssa.Defer); isDefer {
					add(in.Pos(), "defer")
				}
				if c.IsInvoke() {
					if !e.db.isPureIface(c.Method) && !e.db.detIface[ifaceMethodKey(c.Method)] {
						add(in.Pos(), "dynamic call %s is not declared pure or deterministic", ifaceMethodKey(c.Method))
					}
					continue
				}
				switch cv := c.Value.(type) {
				case *ssa.Builtin:
				case *ssa.Function:
					// a closure handed to an order-free helper (fnv1a.AddMap) runs once per map entry in random order:
					// it may work on its own arguments only, never on something it captured (an outer accumulator)
					if oc := e.db.byFunc[fname(originOf(cv))]; oc != nil && oc.OrderFree {
						for _, a := range c.Args {
							if mc, ok := a.(*ssa.MakeClosure); ok {
								for i, b := range mc.Bindings {
									if _, isFn := b.Type().Underlying().(*types.Signature); !isFn {
										add(in.Pos(), "closure passed to order-free %s captures %s", cv.Name(), mc.Fn.(*ssa.Function).FreeVars[i].Name())
									}
								}
							}
						}
					}
					e.detCallee(cv, seen, &out, in.Pos(), add)
				case *ssa.MakeClosure:
					e.detCallee(cv.Fn.(*ssa.Function), seen, &out, in.Pos(), add)
				default:
					if pn := callbackName(c.Value); pn != "" && e.detCallbackOK(fn, pn) {
						continue
					}
					add(in.Pos(), "dynamic call through %s is not a declared-pure callback", exprText(c.Value))
				}
			case *ssa.MakeClosure:
				// a closure created here and handed on: its body must be deterministic too
				out = append(out, e.detReasons(x.Fn.(*ssa.Function), seen, false)...)
			}
		}
	}
	return out
}

func (e *Enc) detCallee(cv *ssa.Function, seen map[*ssa.Function]bool, out *[]string, pos token.Pos, add func(token.Pos, string, ...any)) {
	cv = originOf(cv)
	if cv.Blocks == nil || cv.Pkg == nil || !e.inModule(cv) {
		name := fname(cv)
		if !detAllow[name] && !e.db.pureFns[name] {
			add(pos, "calls %s, which is outside the module and not listed as deterministic", name)
		}
		return
	}
	if c := e.db.byFunc[fname(originOf(cv))]; c != nil && c.OrderFree {
		return // its own contract carries the order-independence argument
	}
	*out = append(*out, e.detReasons(cv, seen, false)...)
}

func originOf(f *ssa.Function) *ssa.Function {
	if o := f.Origin(); o != nil {
		return o
	}
	return f
}

// detCallbackOK: the callback parameter is declared `callback NAME pure` (or deterministic) in the owner's contract.
func (e *Enc) detCallbackOK(fn *ssa.Function, pn string) bool {
	for f := fn; f != nil; f = f.Parent() {
		if c := e.db.byFunc[fname(originOf(f))]; c != nil && (c.PureCallbacks[pn] || c.DetCallbacks[pn]) {
			return true
		}
	}
	return false
}

func (e *Enc) inModule(f *ssa.Function) bool {
	if f.Pkg == nil || e.fn.Pkg == nil {
		return false
	}
	return modulePrefix(f.Pkg.Pkg.Path()) == modulePrefix(e.fn.Pkg.Pkg.Path())
}

func modulePrefix(p string) string {
	const root = "github.com/PapaCharlie/go-restli"
	if strings.HasPrefix(p, root+"/v2") {
		return root + "/v2"
	}
	if strings.HasPrefix(p, root) {
		return root
	}
	return p
}

// globalWritten: some function other than a package initialiser stores to g.
func (e *Enc) globalWritten(g *ssa.Global) bool {
	if g.Pkg == nil {
		return true
	}
	for _, m := range g.Pkg.Members {
		f, ok := m.(*ssa.Function)
		if !ok || f.Name() == "init" {
			continue
		}
		if storesToGlobal(f, g) {
			return true
		}
	}
	return false
}

func storesToGlobal(f *ssa.Function, g *ssa.Global) bool {
	for _, b := range f.Blocks {
		for _, in := range b.Instrs {
			if s, ok := in.(*ssa.Store); ok && s.Addr == ssa.Value(g) {
				return true
			}
		}
	}
	for _, af := range f.AnonFuncs {
		if storesToGlobal(af, g) {
			return true
		}
	}
	return false
}

func shortFile(p string) string {
	if i := strings.LastIndex(p, "/"); i >= 0 {
		return p[i+1:]
	}
	return p
}

// detObligation emits the #frame:det obligation of a function whose contract says `deterministic`.
func (e *Enc) detObligation() {
	rs := e.detReasons(e.fn, map[*ssa.Function]bool{}, e.con.OrderFree)
	sort.Strings(rs)
	ok := "true"
	e.curBlock = e.fn.Blocks[0]
	o := e.oblige("frame", "det", e.fn.Pos(), ok)
	if len(rs) > 0 {
		o.Goal = "false"
		o.Detail = strings.Join(rs, "; ")
	}
	o.Owned = true
	e.cons = e.cons[:len(e.cons)-1]
}

// orderFreeLeak: a parameter other than the ranged map (and function-typed callbacks) that is used inside the loop of a
// map range.
func orderFreeLeak(fn *ssa.Function, rg *ssa.Range) *ssa.Parameter {
	var header *ssa.BasicBlock
	for _, b := range fn.Blocks {
		for _, in := range b.Instrs {
			if n, ok := in.(*ssa.Next); ok && n.Iter == ssa.Value(rg) {
				header = b
			}
		}
	}
	if header == nil {
		return nil
	}
	reach := func(from *ssa.BasicBlock) map[*ssa.BasicBlock]bool {
		seen := map[*ssa.BasicBlock]bool{}
		stack := append([]*ssa.BasicBlock{}, from.Succs...)
		for len(stack) > 0 {
			b := stack[len(stack)-1]
			stack = stack[:len(stack)-1]
			if seen[b] {
				continue
			}
			seen[b] = true
			stack = append(stack, b.Succs...)
		}
		return seen
	}
	fromHeader := reach(header)
	for b := range fromHeader {
		if !reach(b)[header] && b != header {
			continue // not on a cycle through the header: after the loop
		}
		for _, in := range b.Instrs {
			for _, op := range in.Operands(nil) {
				if op == nil || *op == nil {
					continue
				}
				p, ok := (*op).(*ssa.Parameter)
				if !ok || ssa.Value(p) == rg.X {
					continue
				}
				if _, isFn := p.Type().Underlying().(*types.Signature); isFn {
					continue
				}
				return p
			}
		}
	}
	return nil
}
