package main

import (
	"context"
	"encoding/json"
	"fmt"
	"go/types"
	"os"
	"os/exec"
	"path/filepath"
	"strconv"
	"strings"
	"time"
)

// ---------------------------------------------------------------------------------------------------------
// Replay: turn the solver's model of a failed safety obligation into a Go test that builds the entry state of the
// REAL function (in-package, through an overlay, nothing is written under /repo) and calls it. The test passes
// judgement itself: the predicted panic must be observed.
//
// What is concretised: integers, booleans, strings, byte slices, function values (stubs returning zero values),
// nested/embedded structs of the receiver and of pointer-to-struct parameters. Everything else keeps its zero value.
// Loops are cut in the encoding, so a model of an obligation inside a loop describes an arbitrary iteration; the
// replay uses the model's ENTRY state only and may therefore fail to reproduce (reported as no-failing-input-found).
// ---------------------------------------------------------------------------------------------------------

type rval struct {
	path  string // Go lvalue relative to the root variable, e.g. ".data" or ".missingFieldsTracker.scopeToIgnore"
	kind  string // int bool string bytes func
	typ   types.Type
	terms []string // int/bool: value; string: the Str term; bytes: base off len; func: ref
	cell  string   // bytes: element array term
	// filled from the model
	ival  string
	bval  bool
	bytes []byte
	null  bool
}

const maxReplayBytes = 512

func (e *Enc) collectStruct(ref string, t types.Type, path string, depth int, out *[]*rval) {
	s, ok := isStruct(t)
	if !ok || depth > 3 {
		return
	}
	for i := 0; i < s.NumFields(); i++ {
		f := s.Field(i)
		p := path + "." + f.Name()
		if _, ok := isStruct(f.Type()); ok {
			e.collectStruct(app("emb", ref, num(int64(i))), f.Type(), p, depth+1, out)
			continue
		}
		loc := &Loc{field: true, ref: ref, skey: structKey(t), fname: f.Name(), typ: f.Type()}
		v := e.loadLoc(&e.entry, loc)
		e.collectVal(v, p, out)
	}
}

func (e *Enc) collectVal(v *Val, path string, out *[]*rval) {
	switch u := v.typ.Underlying().(type) {
	case *types.Basic:
		switch {
		case u.Info()&types.IsInteger != 0:
			*out = append(*out, &rval{path: path, kind: "int", typ: v.typ, terms: []string{v.c[0]}})
		case u.Info()&types.IsBoolean != 0:
			*out = append(*out, &rval{path: path, kind: "bool", typ: v.typ, terms: []string{v.c[0]}})
		case u.Info()&types.IsString != 0:
			*out = append(*out, &rval{path: path, kind: "string", typ: v.typ, terms: []string{v.c[0]}})
		}
	case *types.Slice:
		if b, ok := u.Elem().Underlying().(*types.Basic); ok && b.Kind() == types.Uint8 {
			cell := e.arr(&e.entry, "C|"+typeKey(u.Elem())+"|", "Int")
			*out = append(*out, &rval{path: path, kind: "bytes", typ: v.typ, terms: []string{v.c[0], v.c[1], v.c[2]}, cell: cell})
		}
	case *types.Signature:
		*out = append(*out, &rval{path: path, kind: "func", typ: v.typ, terms: []string{v.c[0]}})
	}
}

// ---- s-expression reader for (get-value ...) answers ----

type sx struct {
	atom string
	list []*sx
}

func parseSx(s string) []*sx {
	var stack [][]*sx
	cur := []*sx{}
	i := 0
	for i < len(s) {
		c := s[i]
		switch {
		case c == '(':
			stack = append(stack, cur)
			cur = []*sx{}
			i++
		case c == ')':
			n := &sx{list: cur}
			if cur == nil {
				n.list = []*sx{}
			}
			if len(stack) == 0 {
				return cur
			}
			cur = append(stack[len(stack)-1], n)
			stack = stack[:len(stack)-1]
			i++
		case c == ' ' || c == '\n' || c == '\t' || c == '\r':
			i++
		case c == '|':
			j := strings.IndexByte(s[i+1:], '|')
			if j < 0 {
				return cur
			}
			cur = append(cur, &sx{atom: s[i : i+j+2]})
			i += j + 2
		case c == ';':
			for i < len(s) && s[i] != '\n' {
				i++
			}
		default:
			j := i
			for j < len(s) && !strings.ContainsRune("() \n\t\r", rune(s[j])) {
				j++
			}
			cur = append(cur, &sx{atom: s[i:j]})
			i = j
		}
	}
	return cur
}

func (x *sx) String() string {
	if x.list == nil {
		return x.atom
	}
	var ps []string
	for _, c := range x.list {
		ps = append(ps, c.String())
	}
	return "(" + strings.Join(ps, " ") + ")"
}

func (x *sx) intVal() (int64, bool) {
	if x.list == nil {
		v, err := strconv.ParseInt(x.atom, 10, 64)
		return v, err == nil
	}
	if len(x.list) == 2 && x.list[0].atom == "-" {
		v, ok := x.list[1].intVal()
		return -v, ok
	}
	return 0, false
}

// getValues runs z3 on query + (get-value terms) and returns the value s-expressions in order.
func getValues(query string, terms []string) ([]*sx, bool) {
	if len(terms) == 0 {
		return nil, true
	}
	q := strings.Replace(query, "(get-model)\n", "", 1)
	q += "(get-value (" + strings.Join(terms, " ") + "))\n"
	f, _ := os.CreateTemp("", "govc-replay-*.smt2")
	f.WriteString(q)
	f.Close()
	defer os.Remove(f.Name())
	ctx, cancel := context.WithTimeout(context.Background(), 30*time.Second)
	defer cancel()
	out, _ := exec.CommandContext(ctx, "z3-new", "-smt2", "-T:25", f.Name()).CombinedOutput()
	txt := string(out)
	if !strings.HasPrefix(strings.TrimSpace(txt), "sat") {
		return nil, false
	}
	txt = strings.TrimSpace(strings.TrimPrefix(strings.TrimSpace(txt), "sat"))
	top := parseSx(txt)
	if len(top) != 1 || len(top[0].list) != len(terms) {
		return nil, false
	}
	var vals []*sx
	for _, p := range top[0].list {
		if len(p.list) != 2 {
			return nil, false
		}
		vals = append(vals, p.list[1])
	}
	return vals, true
}

func isSafetyKind(k string) bool {
	switch k {
	case "index", "slice", "nil", "typeassert", "div", "mapnil", "panic", "makeslice":
		return true
	}
	return false
}

func tryReplay(f *Failure) (src, verdict, log string) {
	defer func() {
		if r := recover(); r != nil {
			src, verdict, log = "", "", fmt.Sprint("replay generator: ", r)
		}
	}()
	enc := f.Run.Enc
	fn := f.Run.Fn
	if !isSafetyKind(f.Ob.Kind) || fn.Parent() != nil || fn.Pkg == nil || fn.TypeParams().Len() > 0 {
		return "", "", ""
	}
	// entry values
	type root struct {
		name string
		p    *types.Var
		vals []*rval
		ptr  bool
		st   types.Type
		direct *rval
	}
	var roots []*root
	for _, p := range fn.Params {
		r := &root{name: p.Name()}
		v := enc.vals[p]
		if pt, ok := p.Type().Underlying().(*types.Pointer); ok {
			if _, ok := isStruct(pt.Elem()); ok {
				r.ptr = true
				r.st = pt.Elem()
				enc.collectStruct(v.c[0], pt.Elem(), "", 0, &r.vals)
				roots = append(roots, r)
				continue
			}
		}
		var tmp []*rval
		enc.collectVal(v, "", &tmp)
		if len(tmp) == 1 {
			r.direct = tmp[0]
		}
		roots = append(roots, r)
	}
	var all []*rval
	for _, r := range roots {
		all = append(all, r.vals...)
		if r.direct != nil {
			all = append(all, r.direct)
		}
	}
	// phase 1: scalars and lengths
	var terms []string
	for _, v := range all {
		switch v.kind {
		case "int", "bool":
			terms = append(terms, v.terms[0])
		case "string":
			terms = append(terms, app("slen", v.terms[0]))
		case "bytes":
			terms = append(terms, v.terms[2], app("=", v.terms[0], "null"))
		case "func":
			terms = append(terms, app("=", v.terms[0], "null"))
		}
	}
	base := enc.query(f.Ob, false)
	vals, ok := getValues(base, terms)
	if !ok {
		return "", "", "model extraction failed (phase 1)"
	}
	var pins []string
	k := 0
	lens := map[*rval]int64{}
	for _, v := range all {
		switch v.kind {
		case "int":
			n, _ := vals[k].intVal()
			v.ival = strconv.FormatInt(n, 10)
			pins = append(pins, eq(terms[k], num(n)))
			k++
		case "bool":
			v.bval = vals[k].atom == "true"
			pins = append(pins, eq(terms[k], vals[k].atom))
			k++
		case "string":
			n, _ := vals[k].intVal()
			lens[v] = n
			pins = append(pins, eq(terms[k], num(n)))
			k++
		case "bytes":
			n, _ := vals[k].intVal()
			lens[v] = n
			pins = append(pins, eq(terms[k], num(n)))
			v.null = vals[k+1].atom == "true"
			k += 2
		case "func":
			v.null = vals[k].atom == "true"
			k++
		}
	}
	// phase 2: contents
	var cterms []string
	for _, v := range all {
		n := lens[v]
		if n > maxReplayBytes {
			return "", "", fmt.Sprintf("model needs a %d-byte input; skipped", n)
		}
		for i := int64(0); i < n; i++ {
			switch v.kind {
			case "string":
				cterms = append(cterms, app("sat", v.terms[0], num(i)))
			case "bytes":
				cterms = append(cterms, sel(v.cell, app("elem", v.terms[0], app("+", v.terms[1], num(i)))))
			}
		}
	}
	pinned := strings.Replace(base, "(check-sat)", "(assert "+and(pins...)+")\n(check-sat)", 1)
	cvals, ok := getValues(pinned, cterms)
	if !ok {
		return "", "", "model extraction failed (phase 2)"
	}
	k = 0
	for _, v := range all {
		n := lens[v]
		if v.kind != "string" && v.kind != "bytes" {
			continue
		}
		v.bytes = make([]byte, n)
		for i := int64(0); i < n; i++ {
			b, _ := cvals[k].intVal()
			v.bytes[i] = byte(b)
			k++
		}
	}
	// emit
	var sb strings.Builder
	pkg := fn.Pkg.Pkg
	fmt.Fprintf(&sb, "package %s\n\n", pkg.Name())
	sb.WriteString("import (\n\t\"fmt\"\n\t\"reflect\"\n\t\"testing\"\n)\n\n")
	fmt.Fprintf(&sb, "// Replay of obligation %s\n// at %s\n// generated from the solver model by govc; drives the real function.\n", f.Name, f.Ob.Pos)
	sb.WriteString(`func govcStub(p interface{}) {
	v := reflect.ValueOf(p).Elem()
	t := v.Type()
	v.Set(reflect.MakeFunc(t, func(args []reflect.Value) []reflect.Value {
		out := make([]reflect.Value, t.NumOut())
		for i := range out {
			out[i] = reflect.Zero(t.Out(i))
		}
		return out
	}))
}

func govcArg(t reflect.Type, kind string, i int64, b bool, s []byte, null bool) reflect.Value {
	switch kind {
	case "int":
		return reflect.ValueOf(i).Convert(t)
	case "bool":
		return reflect.ValueOf(b).Convert(t)
	case "string":
		return reflect.ValueOf(string(s)).Convert(t)
	case "bytes":
		if null {
			return reflect.Zero(t)
		}
		return reflect.ValueOf(s).Convert(t)
	case "func":
		if null {
			return reflect.Zero(t)
		}
		p := reflect.New(t)
		govcStub(p.Interface())
		return p.Elem()
	}
	return reflect.Zero(t)
}

func TestGovcReplay(t *testing.T) {
	defer func() {
		if r := recover(); r != nil {
			fmt.Printf("GOVC-REPLAY-PANIC: %v\n", r)
			return
		}
		fmt.Println("GOVC-REPLAY-NO-PANIC")
	}()
`)
	lit := func(b []byte) string {
		var ps []string
		for _, c := range b {
			ps = append(ps, strconv.Itoa(int(c)))
		}
		return "[]byte{" + strings.Join(ps, ", ") + "}"
	}
	qual := types.RelativeTo(pkg)
	var callArgs []string
	isMethod := fn.Signature.Recv() != nil
	for i, r := range roots {
		vn := fmt.Sprintf("a%d", i)
		if r.ptr {
			tn := types.TypeString(r.st, qual)
			if strings.Contains(tn, ".") || strings.Contains(tn, "[") {
				return "", "", "parameter type " + tn + " cannot be built in-package by the replay generator"
			}
			fmt.Fprintf(&sb, "\t%s := &%s{}\n", vn, tn)
			for _, v := range r.vals {
				switch v.kind {
				case "int":
					fmt.Fprintf(&sb, "\t%s%s = %s\n", vn, v.path, v.ival)
				case "bool":
					fmt.Fprintf(&sb, "\t%s%s = %v\n", vn, v.path, v.bval)
				case "string":
					fmt.Fprintf(&sb, "\t%s%s = %s\n", vn, v.path, strconv.Quote(string(v.bytes)))
				case "bytes":
					if !v.null {
						fmt.Fprintf(&sb, "\t%s%s = %s\n", vn, v.path, lit(v.bytes))
					}
				case "func":
					if !v.null {
						fmt.Fprintf(&sb, "\tgovcStub(&%s%s)\n", vn, v.path)
					}
				}
			}
			callArgs = append(callArgs, vn)
			continue
		}
		callArgs = append(callArgs, "")
	}
	target := ""
	first := 0
	if isMethod {
		if !roots[0].ptr {
			return "", "", "value receiver: not supported by the replay generator"
		}
		target = "a0." + fn.Name()
		first = 1
	} else {
		target = fn.Name()
	}
	fmt.Fprintf(&sb, "\tfv := reflect.ValueOf(%s)\n\tft := fv.Type()\n\t_ = ft\n\tvar args []reflect.Value\n", target)
	for i := first; i < len(roots); i++ {
		r := roots[i]
		idx := i - first
		switch {
		case r.ptr:
			fmt.Fprintf(&sb, "\targs = append(args, reflect.ValueOf(%s))\n", callArgs[i])
		case r.direct != nil:
			v := r.direct
			iv := v.ival
			if iv == "" {
				iv = "0"
			}
			fmt.Fprintf(&sb, "\targs = append(args, govcArg(ft.In(%d), %q, %s, %v, %s, %v))\n", idx, v.kind, iv, v.bval, lit(v.bytes), v.null)
		default:
			fmt.Fprintf(&sb, "\targs = append(args, reflect.Zero(ft.In(%d)))\n", idx)
		}
	}
	sb.WriteString("\tfv.Call(args)\n}\n")
	src = sb.String()
	// run
	dir := filepath.Join(verifRoot, "replays", ".run")
	os.MkdirAll(dir, 0755)
	tmp, _ := os.CreateTemp(dir, "replay-*_test.go")
	tmp.WriteString(src)
	tmp.Close()
	defer os.Remove(tmp.Name())
	verdict, log = runReplaySource(tmp.Name(), pkgDirOf(f.Run))
	return src, verdict, log
}

func pkgDirOf(r *FuncRun) string {
	pos := r.Mod.Prog.Fset.Position(r.Fn.Pos())
	return filepath.Dir(pos.Filename)
}

// runReplaySource injects file as an in-package test of the package in pkgDir (overlay; nothing is written to the
// repository) and reports whether the predicted panic was observed.
func runReplaySource(file, pkgDir string) (verdict, log string) {
	ov := map[string]any{"Replace": map[string]string{filepath.Join(pkgDir, "govc_replay_generated_test.go"): file}}
	raw, _ := json.Marshal(ov)
	ovf, _ := os.CreateTemp("", "govc-overlay-*.json")
	ovf.Write(raw)
	ovf.Close()
	defer os.Remove(ovf.Name())
	ctx, cancel := context.WithTimeout(context.Background(), 150*time.Second)
	defer cancel()
	cmd := exec.CommandContext(ctx, "bash", "-c", fmt.Sprintf("ulimit -v 8000000; cd %q && go test -overlay %q -vet=off -count=1 -timeout 60s -v -run '^TestGovcReplay$' . 2>&1 | tail -40", pkgDir, ovf.Name()))
	cmd.Env = append(os.Environ(), "GOFLAGS=-mod=mod", "GOPROXY=off", "GOSUMDB=off", "GOTOOLCHAIN=local")
	out, _ := cmd.CombinedOutput()
	log = string(out)
	switch {
	case strings.Contains(log, "GOVC-REPLAY-PANIC"):
		return "reproduced", log
	case strings.Contains(log, "GOVC-REPLAY-NO-PANIC"):
		return "not-reproduced", log
	}
	return "replay-error", log
}

// runReplayFile re-runs a stored replay test; the package directory is recovered from the header comment.
func runReplayFile(path string) (verdict, log string) {
	raw, err := os.ReadFile(path)
	if err != nil {
		return "replay-error", err.Error()
	}
	dir := ""
	for _, l := range strings.Split(string(raw), "\n") {
		if strings.HasPrefix(l, "// at ") {
			p := strings.TrimPrefix(l, "// at ")
			if i := strings.Index(p, ":"); i >= 0 {
				dir = filepath.Dir(p[:i])
			}
		}
	}
	if dir == "" {
		return "replay-error", "no position header"
	}
	return runReplaySource(path, dir)
}
