package main

import (
	"encoding/json"
	"fmt"
	"os"
	"path/filepath"
	"regexp"
	"strings"
)

var unsafeName = regexp.MustCompile(`[^A-Za-z0-9_.#@-]+`)

// writeReplay records a failed obligation in /verif/replays/<id>/ and, when the solver produced a model that the
// replay generator can turn into a test of the real function, runs that test against /repo's working tree.
func writeReplay(prop string, f *Failure, tier string) string {
	dir := filepath.Join(verifRoot, "replays", prop)
	os.MkdirAll(dir, 0755)
	base := unsafeName.ReplaceAllString(f.Name, "_")
	if len(base) > 150 {
		base = base[:150]
	}
	path := filepath.Join(dir, base+".json")
	rec := map[string]any{"property": prop, "obligation": f.Name, "reason": f.Reason, "detail": f.Detail, "tier": tier}
	if f.Ob != nil {
		rec["position"] = f.Ob.Pos.String()
		rec["solver"] = f.Ob.Result.Solver
		rec["solver_status"] = f.Ob.Result.Status
		out := f.Ob.Result.Out
		if len(out) > 20000 {
			out = out[:20000] + "\n...truncated"
		}
		rec["solver_output"] = out
		rec["model_inputs"] = strings.Split(strings.TrimSpace(modelSummary(f.Ob.Result.Out)), "\n")
	}
	if f.Ob != nil && f.Run != nil && f.Reason == "sat" {
		if src, verdict, log := tryReplay(f); src != "" {
			gofile := filepath.Join(dir, base+"_test.go")
			os.WriteFile(gofile, []byte(src), 0644)
			rec["replay_test"] = gofile
			rec["replay_verdict"] = verdict
			rec["replay_log"] = log
			f.Replayed = verdict == "reproduced"
		}
	}
	if !f.Replayed {
		rec["note"] = "no-failing-input-found: the obligation is no longer discharged; no concrete input reproduced on the real code"
	}
	raw, _ := json.MarshalIndent(rec, "", " ")
	os.WriteFile(path, raw, 0644)
	f.Replay = path
	return path
}

func cmdReplay(args []string) int {
	if len(args) < 1 {
		fmt.Fprintln(os.Stderr, "usage: govc replay <file.json>")
		return 2
	}
	path := args[len(args)-1]
	raw, err := os.ReadFile(path)
	if err != nil {
		fmt.Fprintln(os.Stderr, err)
		return 2
	}
	var rec map[string]any
	json.Unmarshal(raw, &rec)
	fmt.Printf("obligation: %v\nreason: %v\nposition: %v\n", rec["obligation"], rec["reason"], rec["position"])
	if t, ok := rec["replay_test"].(string); ok {
		verdict, log := runReplayFile(t)
		fmt.Printf("replay test %s: %s\n%s\n", t, verdict, log)
		if verdict == "reproduced" {
			fmt.Printf("VIOLATION property=%v replay=%s\n", rec["property"], path)
			return 1
		}
		return 0
	}
	fmt.Println("no concrete input recorded (no-failing-input-found); re-run the property check to regenerate the obligation")
	return 0
}

// tryReplay / runReplayFile are implemented in replaygen.go
