package main

import (
	"fmt"
	"net/textproto"
	"sort"
	"strconv"
	"go/types"
	"strings"

	"golang.org/x/tools/go/ssa"
)

func (e *Enc) applyEffect(st *State, ef *effect, argv ...*Val) {
	if ef.all {
		e.havocAll(st)
		return
	}
	for n := range ef.names {
		if srt, ok := arrSorts[n]; ok {
			var old string
			po := ef.paramOnly(n)
			if po != nil && len(argv) > 0 && strings.HasPrefix(srt, "(Array Ref ") {
				old = e.arrRaw(st, n, srt)
			}
			e.n++
			st.m[n] = e.declare(fmt.Sprintf("%s@%d", n, e.n), srt)
			e.wfArray(n, st.m[n])
			if old != "" {
				// "modifies *p": every cell other than the ones the pointer arguments address keeps its value
				var ne []string
				okAll := true
				for idx := range po {
					if idx >= len(argv) || argv[idx] == nil || len(argv[idx].c) != 1 {
						okAll = false
						break
					}
					ne = append(ne, not(eq("r", argv[idx].c[0])))
				}
				if okAll {
					sort.Strings(ne)
					nw := st.m[n]
					e.assume(fmt.Sprintf("(forall ((r Ref)) (! (=> %s (= (select %s r) (select %s r))) :pattern ((select %s r))))", and(ne...), nw, old, nw))
				}
			}
		} else {
			e.havocAll(st)
			return
		}
	}
	// "modifies fresh": arrays the callee writes only at objects it allocated itself keep their values at every
	// reference that existed before the call; callee-allocated objects live in an id region of their own.
	if len(ef.fresh) > 0 {
		e.callRegion++
		lo := e.calleeWatermark(st)
		hi := e.fresh("cw", "Int")
		e.assume(app(">", hi, lo))
		arrSorts["G|cw"] = "Int"
		st.m["G|cw"] = hi
		inRegion := func(r string) string {
			return fmt.Sprintf("(and ((_ is obj) %s) (< %s (oid %s)) (<= (oid %s) %s))", r, lo, r, r, hi)
		}
		root1 := "(ite ((_ is emb) r) (eobj r) (ite ((_ is elem) r) (ebase r) r))"
		root2 := strings.ReplaceAll(root1, " r)", " "+root1+")")
		_ = root2
		for n := range ef.fresh {
			if ef.names[n] {
				continue
			}
			srt, ok := arrSorts[n]
			if !ok || !strings.HasPrefix(srt, "(Array Ref ") {
				continue
			}
			old := e.arrRaw(st, n, srt)
			e.n++
			nw := e.declare(fmt.Sprintf("%s@%d", n, e.n), srt)
			st.m[n] = nw
			e.wfArray(n, nw)
			// r, its owner, and the owner's owner are not callee-allocated (emitted lazily, when the array is first read)
			e.pendingFrame[nw] = fmt.Sprintf("(forall ((r Ref)) (! (=> (and (not %s) (not %s) (not %s)) (= (select %s r) (select %s r))) :pattern ((select %s r))))",
				inRegion("r"), inRegion(owner("r")), inRegion(owner(owner("r"))), nw, old, nw)
			e.pendingOld[nw] = old
		}
	}
}

func owner(r string) string {
	return fmt.Sprintf("(ite ((_ is emb) %s) (eobj %s) (ite ((_ is elem) %s) (ebase %s) %s))", r, r, r, r, r)
}

func (e *Enc) call(in *ssa.Call, st *State) {
	c := in.Common()
	if c.IsInvoke() {
		recv := e.val(c.Value)
		e.oblige("nil", exprText(c.Value)+"."+c.Method.Name(), in.Pos(), not(eq(recv.c[0], "0")))
		if c.Method.Pkg() != nil && ufIfacePkgs[c.Method.Pkg().Path()] {
			e.set(in, e.ufApply("iface."+c.Method.Pkg().Path()+"."+c.Method.Name(), append([]ssa.Value{c.Value}, c.Args...), in.Type()))
			return
		}
		{
			argv := []*Val{recv}
			for _, a := range c.Args {
				argv = append(argv, e.val(a))
			}
			e.callSiteHooks(in, "invoke:"+c.Method.Name(), c.Method.Name(), append([]ssa.Value{c.Value}, c.Args...), argv, st)
		}
		if key := ifaceMethodKey(c.Method); e.db.isPureIface(c.Method) {
			e.note("interface method %s is assumed pure (uninterpreted function of receiver and arguments)", key)
			rv := e.ufApply("iface."+key, append([]ssa.Value{c.Value}, c.Args...), in.Type())
			nn := e.db.nonnilIface[key]
			if i := strings.LastIndex(key, "."); i > 0 && e.db.nonnilIface[key[:i]+".*"] {
				nn = true
			}
			if nn && len(rv.c) == 1 && leaves(in.Type())[0].sort == "Ref" {
				e.assume(not(eq(rv.c[0], "null")))
			} else if nn && len(rv.c) == 2 {
				e.assume(not(eq(rv.c[0], "0")))
			}
			e.set(in, rv)
			return
		}
		if t := e.dynOf(c.Value); t != nil {
			if callee, rv := e.devirtualize(t, c.Method, recv, st); callee != nil {
				args := append([]ssa.Value{nil}, c.Args...)
				argv := []*Val{rv}
				for _, a := range c.Args {
					argv = append(argv, e.val(a))
				}
				e.staticCallV(in, callee, args, argv, st)
				return
			}
		}
		if pp := e.db.ifacePreservesFor(c.Method); len(pp) > 0 {
			e.note("interface method %s (user code) is assumed to preserve %v", ifaceMethodKey(c.Method), pp)
			e.havocAllPreserving(st, pp)
		} else {
			e.havocAll(st)
		}
		rv := e.freshVal("invoke."+c.Method.Name(), in.Type())
		e.existing(st, rv)
		e.set(in, rv)
		{
			site := "invoke:" + c.Method.Name()
			e.siteResults[fmt.Sprintf("%s#%d", site, e.lastOrd[site])] = rv
		}
		return
	}
	switch callee := c.Value.(type) {
	case *ssa.Builtin:
		e.builtin(in, callee, st)
	case *ssa.Function:
		e.staticCall(in, callee, c.Args, st)
	default:
		// dynamic call through a function value
		fv := e.val(c.Value)
		e.oblige("nil", exprText(c.Value)+"()", in.Pos(), not(eq(fv.c[0], "null")))
		{
			nm := callbackName(c.Value)
			if nm == "" {
				nm = exprText(c.Value)
			}
			argv := []*Val{fv}
			for _, a := range c.Args {
				argv = append(argv, e.val(a))
			}
			e.callSiteHooks(in, "dyn:"+nm, nm, append([]ssa.Value{c.Value}, c.Args...), argv, st)
		}
		if fld := pureFieldOf(c.Value); fld != "" && e.db.pureFields[fld] {
			e.note("values of function-typed field %s are pure functions (checked at every store to the field in functions under contract)", fld)
			argv := []*Val{fv}
			for _, a := range c.Args {
				argv = append(argv, e.val(a))
			}
			res := e.ufTerm("field."+fld, argv, in.Type())
			if e.db.nonnilFields[fld] && len(res.c) == 2 {
				e.assume(not(eq(res.c[0], "0")))
			}
			e.set(in, res)
			{
				site := "dyn:" + callbackNameOr(c.Value)
				e.siteResults[fmt.Sprintf("%s#%d", site, e.lastOrd[site])] = res
			}
			return
		}
		if lf := localClosure(c.Value); lf != nil {
			e.localClosureCall(in, lf, c, st)
			return
		}
		if pn := callbackName(c.Value); pn != "" && e.pureCallback(pn) {
			argv := []*Val{fv}
			for _, a := range c.Args {
				argv = append(argv, e.val(a))
			}
			e.note("callback %s is assumed pure (uninterpreted function of its arguments)", pn)
			e.set(in, e.ufTerm("cb."+pn, argv, in.Type()))
			return
		}
		pre := st.clone()
		if pn := callbackName(c.Value); pn != "" && e.con != nil && len(e.con.CallbackPreserves[pn]) > 0 {
			e.havocAllPreserving(st, e.con.CallbackPreserves[pn])
		} else {
			e.havocAll(st)
		}
		dv := e.freshVal("dyncall", in.Type())
		e.existing(st, dv)
		e.set(in, dv)
		{
			site := "dyn:" + callbackNameOr(c.Value)
			e.siteResults[fmt.Sprintf("%s#%d", site, e.lastOrd[site])] = dv
		}
		if pn := callbackName(c.Value); pn != "" && e.con != nil {
			for _, en := range e.con.Callback[pn] {
				if e.active(en) {
					env := &Env{e: e, st: st, old: &pre, vars: e.params, at: in}
					e.assumeHere(env.formula(en.E))
				}
			}
		}
	}
}

func (e *Enc) builtin(in *ssa.Call, b *ssa.Builtin, st *State) {
	args := in.Common().Args
	if e.con != nil && (b.Name() == "append" || b.Name() == "delete") {
		var argv []*Val
		for _, a := range args {
			argv = append(argv, e.val(a))
		}
		e.callSiteHooks(in, "builtin:"+b.Name(), b.Name(), args, argv, st)
	}
	switch b.Name() {
	case "len":
		x := e.val(args[0])
		switch args[0].Type().Underlying().(type) {
		case *types.Slice:
			e.set(in, &Val{typ: in.Type(), c: []string{x.c[2]}})
		case *types.Basic:
			e.set(in, &Val{typ: in.Type(), c: []string{app("slen", x.c[0])}})
		default:
			e.set(in, e.mapLen(st, args[0].Type(), x))
		}
	case "cap":
		x := e.val(args[0])
		if _, ok := args[0].Type().Underlying().(*types.Slice); ok {
			e.set(in, &Val{typ: in.Type(), c: []string{x.c[3]}})
		} else {
			e.set(in, e.freshVal("cap", in.Type()))
		}
	case "append":
		e.appendOp(in, args, st)
	case "copy":
		if sl, ok := args[0].Type().Underlying().(*types.Slice); ok {
			names := map[string]bool{}
			namesOfType(sl.Elem(), names)
			e.applyEffect(st, &effect{names: names})
		}
		e.set(in, e.freshVal("copy", in.Type()))
	case "delete":
		e.mapDelete(args[0].Type(), e.val(args[0]).c[0], e.val(args[1]).c[0], st)
	default:
		if in.Type() != nil {
			e.set(in, e.freshVal(b.Name(), in.Type()))
		}
	}
}

func (e *Enc) staticCall(in *ssa.Call, callee *ssa.Function, args []ssa.Value, st *State) {
	argv := make([]*Val, len(args))
	for i, a := range args {
		argv[i] = e.val(a)
	}
	e.staticCallV(in, callee, args, argv, st)
}

// siteOrdinal numbers the call sites of one callee in SOURCE order (stable under CFG changes elsewhere).
func (e *Enc) siteOrdinal(in *ssa.Call, site string) int {
	if e.siteOrd == nil {
		e.siteOrd = map[*ssa.Call]int{}
		bySite := map[string][]*ssa.Call{}
		for _, b := range e.fn.Blocks {
			for _, ins := range b.Instrs {
				if c, ok := ins.(*ssa.Call); ok {
					n := siteName(c)
					bySite[n] = append(bySite[n], c)
				}
			}
		}
		for _, cs := range bySite {
			sort.SliceStable(cs, func(i, j int) bool {
				pi, pj := cs[i].Pos(), cs[j].Pos()
				if pi == pj {
					return cs[i].Block().Index < cs[j].Block().Index
				}
				return pi < pj
			})
			for i, c := range cs {
				e.siteOrd[c] = i
			}
		}
	}
	if o, ok := e.siteOrd[in]; ok {
		return o
	}
	return -2
}

func siteNameOf(callee *ssa.Function) string {
	if pk := pkgPathOf(callee); pk != "" && !strings.HasPrefix(pk, modRoot) {
		if callee.Signature.Recv() != nil {
			return callee.String()
		}
		return pk + "." + callee.Name()
	}
	return fname(callee)
}

// callSiteHooks: call-site obligations (assert @call NAME#N / NAME#*) and ghost "reached" flags for one call site.
func (e *Enc) callSiteHooks(in *ssa.Call, site, short string, args []ssa.Value, argv []*Val, st *State) bool {
	ord := e.siteOrdinal(in, site)
	e.lastOrd[site] = ord
	key := fmt.Sprintf("%s#%d", site, ord)
	if e.ghostSites[key] {
		arrSorts["G|reached|"+key] = "Bool"
		st.m["G|reached|"+key] = "true"
	}
	if _, ok := e.iterSites[key]; ok {
		arrSorts["G|iter|"+key] = "Bool"
		st.m["G|iter|"+key] = "true"
	}
	asserted := false
	if e.con == nil {
		return false
	}
	for ai, a := range e.con.Asserts {
		if a.Callee != site || !(a.Ordinal == ord || a.Ordinal < 0) {
			continue
		}
		asserted = true
		e.assertHit[ai] = true
		if !e.active(a.C) {
			continue
		}
		vars := map[string]*Val{}
		for k, v := range e.params {
			vars[k] = v
		}
		for i := range argv {
			vars[fmt.Sprintf("arg%d", i)] = argv[i]
			if i < len(args) && args[i] != nil {
				if mi, ok := args[i].(*ssa.MakeInterface); ok {
					vars[fmt.Sprintf("unbox_arg%d", i)] = e.val(mi.X)
				}
			}
		}
		env := &Env{e: e, st: st, old: &e.entry, vars: vars, at: in}
		// an assertion that speaks of a call site not executed before this point is false here, not an engine error
		f := func() (f string) {
			defer func() {
				if r := recover(); r != nil {
					if _, ok := r.(unreachedSite); ok {
						f = "false"
						return
					}
					panic(r)
				}
			}()
			return env.formula(a.C.E)
		}()
		o := e.oblige("assert", fmt.Sprintf("@call:%s#%d:%s", short, ord, shorten(a.C.Src)), in.Pos(), f)
		o.Owned = true
		o.Clause = a.C
	}
	return asserted
}

// specKey names the specialization of callee selected by the dynamic types of interface-typed arguments that are
// known at this call site, e.g. "restlicodec.readRecord[reader=*restlicodec.ror2Reader]".
func (e *Enc) specKey(callee *ssa.Function, args []ssa.Value, argv []*Val) (string, map[int]types.Type) {
	var parts []string
	dyn := map[int]types.Type{}
	for i, p := range callee.Params {
		if i >= len(args) || args[i] == nil {
			continue
		}
		if _, ok := p.Type().Underlying().(*types.Interface); !ok {
			continue
		}
		if t := e.dynOf(args[i]); t != nil {
			parts = append(parts, p.Name()+"="+typeKey(t))
			dyn[i] = t
		}
	}
	if len(parts) == 0 {
		return "", nil
	}
	return fname(callee) + "[" + strings.Join(parts, ",") + "]", dyn
}

// dynOf is the dynamic type of an interface value when it is known syntactically.
func (e *Enc) dynOf(v ssa.Value) types.Type {
	switch x := v.(type) {
	case *ssa.MakeInterface:
		return x.X.Type()
	case *ssa.ChangeInterface:
		return e.dynOf(x.X)
	}
	if t, ok := e.dyn[v]; ok {
		return t
	}
	return e.sealedDyn(v.Type())
}

// sealedDyn: the one implementing type of a sealed interface type (claim validated by sealedImpl), else nil.
func (e *Enc) sealedDyn(t types.Type) types.Type {
	if nt, ok := t.(*types.Named); ok && nt.Obj().Pkg() != nil {
		if impl, ok := e.db.sealed[typeKey(nt)]; ok {
			return e.sealedImpl(nt, impl)
		}
	}
	return nil
}

// sealedMethod: the concrete method an invoke on a sealed interface dispatches to.
func (e *Enc) sealedMethod(recv types.Type, m *types.Func) *ssa.Function {
	t := e.sealedDyn(recv)
	if t == nil {
		return nil
	}
	sel := types.NewMethodSet(t).Lookup(m.Pkg(), m.Name())
	if sel == nil {
		return nil
	}
	return e.prog.FuncValue(sel.Obj().(*types.Func))
}

// sealedImpl validates a `sealed` claim and returns the implementing pointer type: the interface must have an unexported
// method (so only its own package can implement it) and exactly one named type of that package (or its pointer) may do so.
func (e *Enc) sealedImpl(nt *types.Named, impl string) types.Type {
	it, ok := nt.Underlying().(*types.Interface)
	if !ok {
		return nil
	}
	unexported := false
	for i := 0; i < it.NumMethods(); i++ {
		if !it.Method(i).Exported() {
			unexported = true
		}
	}
	if !unexported {
		panic("sealed: " + nt.Obj().Name() + " has no unexported method, other packages can implement it")
	}
	var found types.Type
	n := 0
	sc := nt.Obj().Pkg().Scope()
	for _, name := range sc.Names() {
		tn, ok := sc.Lookup(name).(*types.TypeName)
		if !ok || tn.IsAlias() {
			continue
		}
		if _, isI := tn.Type().Underlying().(*types.Interface); isI {
			continue
		}
		if named, ok := tn.Type().(*types.Named); ok && named.TypeParams().Len() > 0 {
			continue
		}
		for _, cand := range []types.Type{tn.Type(), types.NewPointer(tn.Type())} {
			if types.Implements(cand, it) {
				n++
				found = cand
				break
			}
		}
	}
	if n != 1 || found == nil || typeKey(found) != impl {
		panic(fmt.Sprintf("sealed: %s is implemented by %d types (claimed %s)", nt.Obj().Name(), n, impl))
	}
	return found
}

func (e *Enc) staticCallV(in *ssa.Call, callee *ssa.Function, args []ssa.Value, argv []*Val, st *State) {
	con := e.db.byFunc[fname(callee)]
	specDyn := map[int]types.Type{}
	if key, dyn := e.specKey(callee, args, argv); key != "" {
		if sc := e.db.byFunc[key]; sc != nil {
			con = sc
			specDyn = dyn
		}
	}
	cn := siteNameOf(callee)
	shortName := callee.Name()
	if o := callee.Origin(); o != nil {
		shortName = o.Name()
	}
	asserted := e.callSiteHooks(in, cn, shortName, args, argv, st)
	if e.headerOp(in, callee, cn, argv, st) {
		return
	}
	if e.mathOp(in, callee, argv) {
		return
	}
	if e.db.pureFns[callee.String()] {
		e.note("dependency function %s is assumed pure (uninterpreted function of its arguments)", callee.String())
		res := e.ufTerm("pure."+callee.String(), argv, in.Type())
		if e.db.nonnilFns[callee.String()] {
			if len(res.c) == 1 {
				e.assume(not(eq(res.c[0], "null")))
			} else if len(res.c) == 2 {
				e.assume(not(eq(res.c[0], "0")))
			}
		}
		e.set(in, res)
		e.siteResults[fmt.Sprintf("%s#%d", cn, e.lastOrd[cn])] = res
		// assumed facts about a pure dependency function (extern ... ensures): stated over its parameters and single result
		if con != nil && len(con.Ensures) > 0 && callee.Signature.Results().Len() == 1 {
			vars := map[string]*Val{"result": res, "result0": res}
			for i, p := range callee.Params {
				if i < len(argv) {
					vars[p.Name()] = argv[i]
				}
			}
			if n := callee.Signature.Results().At(0).Name(); n != "" {
				vars[n] = res
			}
			// dependency functions are loaded without bodies: parameter names come from the signature
			if len(callee.Params) == 0 {
				ps := callee.Signature.Params()
				for i := 0; i < ps.Len() && i < len(argv); i++ {
					if n := ps.At(i).Name(); n != "" {
						vars[n] = argv[i]
					}
				}
			}
			env := &Env{e: e, st: st, old: st, vars: vars, foreign: true, noLocals: true}
			for _, en := range con.Ensures {
				if e.active(en) {
					if f, ok := e.tryFormula(env, en.E); ok {
						e.assumeHere(f)
					}
				}
			}
		}
		return
	}
	if pk := pkgPathOf(callee); !strings.HasPrefix(pk, modRoot) {
		full := pk + "." + callee.Name()
		if (e.db.effectFns[full] || (e.db.effectPkgs[pk] && !e.db.observers[full])) && !asserted {
			// an externally visible effect that no call-site contract accounts for
			o := e.oblige("effect", full+":no-call-site-contract", in.Pos(), "false")
			o.Owned = true
		}
	}
	pre := st.clone()
	// receiver nil check for pointer-receiver methods
	if callee.Signature.Recv() != nil && len(args) > 0 && !(con != nil && con.NilableRecv) {
		if _, ok := argv[0].typ.Underlying().(*types.Pointer); ok && args[0] != nil {
			switch args[0].(type) {
			case *ssa.Alloc, *ssa.FieldAddr, *ssa.IndexAddr:
			default:
				e.oblige("nil", exprText(args[0])+"."+callee.Name(), in.Pos(), not(eq(argv[0].c[0], "null")))
			}
		}
	}
	vars := map[string]*Val{}
	for i, p := range callee.Params {
		if i < len(args) {
			vars[p.Name()] = argv[i]
			if t, ok := specDyn[i]; ok {
				if _, isPtr := t.Underlying().(*types.Pointer); isPtr {
					vars[p.Name()] = &Val{typ: t, c: []string{argv[i].c[1]}}
				}
			}
		}
	}
	tinv := e.db.typeInvFor(fname(callee))
	if callee.Signature.Recv() == nil {
		tinv = nil
	}
	if len(tinv) > 0 && len(args) > 0 {
		env := &Env{e: e, st: st, old: st, vars: map[string]*Val{"self": argv[0]}}
		for _, c := range tinv {
			e.obligeClause("pre:"+shortName+":typeinv", c, in.Pos(), env.formula(c.E))
		}
	}
	if con != nil {
		env := &Env{e: e, st: st, old: st, vars: vars}
		for _, r := range con.Requires {
			e.obligeClause("pre:"+shortName, r, in.Pos(), env.formula(r.E))
		}
	}
	if (pkgPathOf(callee) == "encoding/json" && callee.Name() == "Unmarshal") || pkgPathOf(callee) == "sort" {
		ef := &effect{names: map[string]bool{}}
		e.instrEffect(in, ef)
		e.applyEffect(st, ef)
	} else if rt := e.db.recvOnlyType(callee); rt != nil {
		e.note("methods of %s are assumed to modify only their receiver", typeKey(rt))
		names := map[string]bool{}
		namesOfType(rt, names)
		e.applyEffect(st, &effect{names: names})
	} else if ef := e.effectOf(callee); ef.all && con != nil && len(con.Preserves) > 0 {
		e.note("call to %s: assumed to preserve %v (its callbacks are user code)", fname(callee), con.Preserves)
		e.havocAllPreserving(st, con.Preserves)
	} else {
		e.applyEffect(st, ef, argv...)
	}
	var res *Val
	if con != nil && con.Functional {
		res = e.ufTerm("fn."+fname(callee), argv, in.Type())
	}
	if res != nil {
	} else if pk := pkgPathOf(callee); pk == "path/filepath" && callee.Name() == "Join" && len(argv) == 1 {
		res = e.joinUF(argv[0], st)
	}
	if res != nil {
	} else if pk := pkgPathOf(callee); ufPkgs[pk] && in.Type() != nil {
		res = e.ufTerm(pk+"."+callee.Name(), argv, in.Type())
	} else {
		res = e.freshVal("call."+callee.Name(), in.Type())
		e.existing(st, res)
	}
	e.set(in, res)
	e.siteResults[fmt.Sprintf("%s#%d", cn, e.lastOrd[cn])] = res
	if pkgPathOf(callee) == "sort" {
		e.sortedAfter(callee, args, argv, st)
	}
	if len(tinv) > 0 && len(args) > 0 {
		env := &Env{e: e, st: st, old: &pre, vars: map[string]*Val{"self": argv[0]}}
		for _, c := range tinv {
			if e.active(c) {
				e.assumeHere(env.formula(c.E))
			}
		}
	}
	if con != nil {
		results := callee.Signature.Results()
		if results.Len() == 1 {
			vars["result"] = res
			vars["result0"] = res
			if n := results.At(0).Name(); n != "" {
				vars[n] = res
			}
			if types.TypeString(results.At(0).Type(), nil) == "error" {
				vars["err"] = res
			}
		} else {
			for i := 0; i < results.Len(); i++ {
				lo, hi := tupleRange(results, i)
				rv := &Val{typ: results.At(i).Type(), c: res.c[lo:hi]}
				vars[fmt.Sprintf("result%d", i)] = rv
				if i == 0 {
					vars["result"] = rv
				}
				if n := results.At(i).Name(); n != "" {
					vars[n] = rv
				}
				if types.TypeString(results.At(i).Type(), nil) == "error" {
					vars["err"] = rv
				}
			}
		}
		env := &Env{e: e, st: st, old: &pre, vars: vars, foreign: true}
		for _, en := range con.Ensures {
			if e.active(en) {
				// a clause that speaks about the callee's internals (resultof / reached of its own call sites) cannot be
				// used by callers: it is simply not assumed
				if f, ok := e.tryFormula(env, en.E); ok {
					e.assumeHere(f)
				}
			}
		}
	}
}

// ifaceMethodKey names an interface method by the interface that declares it: "restlicodec.KeyChecker.IsKeyExcluded".
func ifaceMethodKey(m *types.Func) string {
	sig, _ := m.Type().(*types.Signature)
	if sig != nil && sig.Recv() != nil {
		if n, ok := sig.Recv().Type().(*types.Named); ok {
			return typeKey(n) + "." + m.Name()
		}
	}
	if m.Pkg() != nil {
		return m.Pkg().Name() + "." + m.Name()
	}
	return m.Name()
}

// callbackName: the parameter or captured variable a called function value stems from (seen through the cell that
// go/ssa allocates for captured parameters).
func callbackName(v ssa.Value) string {
	switch x := v.(type) {
	case *ssa.Parameter:
		return x.Name()
	case *ssa.FreeVar:
		return x.Name()
	case *ssa.UnOp:
		switch a := x.X.(type) {
		case *ssa.FreeVar:
			return a.Name()
		case *ssa.Alloc:
			var src ssa.Value
			n := 0
			for _, r := range *a.Referrers() {
				if s, ok := r.(*ssa.Store); ok && s.Addr == a {
					n++
					src = s.Val
				}
			}
			if n == 1 {
				if p, ok := src.(*ssa.Parameter); ok {
					return p.Name()
				}
			}
		}
	}
	return ""
}

// pureFieldOf names the struct field a function value was loaded from ("pkg.Struct.field"), if it is a direct load.
func pureFieldOf(v ssa.Value) string {
	u, ok := v.(*ssa.UnOp)
	if !ok {
		return ""
	}
	fa, ok := u.X.(*ssa.FieldAddr)
	if !ok {
		return ""
	}
	st := fa.X.Type().Underlying().(*types.Pointer).Elem()
	s := st.Underlying().(*types.Struct)
	return structKey(st) + "." + s.Field(fa.Field).Name()
}

var ufPkgs = map[string]bool{"strings": true, "path/filepath": true, "path": true, "reflect": true}
var ufIfacePkgs = map[string]bool{"io/fs": true}

func pkgPathOf(fn *ssa.Function) string {
	if fn.Pkg != nil {
		return fn.Pkg.Pkg.Path()
	}
	if fn.Object() != nil && fn.Object().Pkg() != nil {
		return fn.Object().Pkg().Path()
	}
	return ""
}

// ufApply models a call into a functional dependency as an uninterpreted function of its argument leaves.
func (e *Enc) ufApply(name string, args []ssa.Value, rt types.Type) *Val {
	var argTerms, argSorts []string
	for _, a := range args {
		v := e.val(a)
		for k, l := range leaves(a.Type()) {
			argTerms = append(argTerms, v.c[k])
			argSorts = append(argSorts, l.sort)
		}
	}
	out := &Val{typ: rt}
	for _, l := range leaves(rt) {
		f := e.declareFun("uf!"+name+"!"+l.path, "("+strings.Join(argSorts, " ")+") "+l.sort)
		if len(argTerms) == 0 {
			out.c = append(out.c, f)
		} else {
			out.c = append(out.c, app(f, argTerms...))
		}
	}
	return out
}

func (e *Enc) ufTerm(name string, args []*Val, rt types.Type) *Val {
	var argTerms, argSorts []string
	for _, v := range args {
		for k, l := range leaves(v.typ) {
			argTerms = append(argTerms, v.c[k])
			argSorts = append(argSorts, l.sort)
		}
	}
	out := &Val{typ: rt}
	for _, l := range leaves(rt) {
		f := e.declareFun("uf!"+name+"!"+l.path, "("+strings.Join(argSorts, " ")+") "+l.sort)
		out.c = append(out.c, app(f, argTerms...))
	}
	for _, a := range argTerms {
		if boundVarRe.MatchString(a) {
			return out // under a quantifier: side facts would mention the bound variable outside its scope
		}
	}
	e.stringFnFacts(name, argTerms, out)
	if !strings.HasPrefix(name, "spec.") {
		e.wfUF(out)
	}
	return out
}

// wfUF: results of uninterpreted dependency functions are bit-valid Go values (slice headers, integer ranges).
func (e *Enc) wfUF(v *Val) {
	key := "wfuf:" + strings.Join(v.c, ",")
	if e.declared[key] {
		return
	}
	e.declared[key] = true
	e.wellFormedVal(v)
	// objects handed out by an uninterpreted dependency function are not among those a callee allocates
	for k, l := range leaves(v.typ) {
		if l.sort == "Ref" && k < len(v.c) {
			for _, r := range []string{v.c[k], owner(v.c[k]), owner(owner(v.c[k]))} {
				e.assume(fmt.Sprintf("(=> ((_ is obj) %s) (<= (oid %s) (+ |alloc!0| 999999999)))", r, r))
			}
		}
	}
}

// stringFnFacts: ground definitions for strings.HasPrefix / HasSuffix when the affix is a literal.
func (e *Enc) stringFnFacts(name string, args []string, out *Val) {
	if (name != "strings.HasSuffix" && name != "strings.HasPrefix") || len(args) != 2 {
		return
	}
	lit, ok := e.litOf[args[1]]
	if !ok {
		return
	}
	key := "strfact:" + out.c[0]
	if e.declared[key] {
		return
	}
	e.declared[key] = true
	s := args[0]
	n := int64(len(lit))
	parts := []string{app(">=", app("slen", s), num(n))}
	for i := int64(0); i < n; i++ {
		idx := num(i)
		if name == "strings.HasSuffix" {
			idx = app("+", app("-", app("slen", s), num(n)), num(i))
		}
		parts = append(parts, eq(app("sat", s, idx), num(int64(lit[i]))))
	}
	e.assume(eq(out.c[0], and(parts...)))
}

// devirtualize resolves an interface method call on a value of known dynamic type t to the concrete method and the
// receiver it is applied to (following embedded fields for promoted methods).
func (e *Enc) devirtualize(t types.Type, m *types.Func, recv *Val, st *State) (*ssa.Function, *Val) {
	if _, ok := t.Underlying().(*types.Pointer); !ok {
		return nil, nil
	}
	sel := types.NewMethodSet(t).Lookup(m.Pkg(), m.Name())
	if sel == nil {
		return nil, nil
	}
	fn := e.prog.FuncValue(sel.Obj().(*types.Func))
	if fn == nil {
		return nil, nil
	}
	cur := &Val{typ: t, c: []string{recv.c[1]}}
	path := sel.Index()
	curT := t
	ref := cur.c[0]
	for _, idx := range path[:len(path)-1] {
		pt, ok := curT.Underlying().(*types.Pointer)
		if !ok {
			return nil, nil
		}
		s, ok := pt.Elem().Underlying().(*types.Struct)
		if !ok {
			return nil, nil
		}
		f := s.Field(idx)
		if _, isStruct := isStruct(f.Type()); isStruct {
			ref = app("emb", ref, num(int64(idx)))
			curT = types.NewPointer(f.Type())
			continue
		}
		if _, isPtr := f.Type().Underlying().(*types.Pointer); isPtr {
			v := e.loadLoc(st, &Loc{field: true, ref: ref, skey: structKey(pt.Elem()), fname: f.Name(), typ: f.Type()})
			ref = v.c[0]
			curT = f.Type()
			continue
		}
		return nil, nil
	}
	// receiver form expected by the method
	want := fn.Signature.Recv().Type()
	if _, ok := want.Underlying().(*types.Pointer); ok {
		return fn, &Val{typ: want, c: []string{ref}}
	}
	return nil, nil
}

// joinUF models filepath.Join(e0, ..., en-1) as an uninterpreted function of its n elements when the variadic slice
// has a literal length (the usual call shape).
func (e *Enc) joinUF(sl *Val, st *State) *Val {
	n, err := strconv.Atoi(sl.c[2])
	if err != nil || n < 1 || n > 4 {
		return nil
	}
	var elems []*Val
	tstr := types.Typ[types.String]
	for i := 0; i < n; i++ {
		elems = append(elems, e.loadAt(st, app("elem", sl.c[0], app("+", sl.c[1], num(int64(i)))), tstr))
	}
	return e.ufTerm(fmt.Sprintf("path/filepath.Join%d", n), elems, tstr)
}

// mapLen: len(m). For maps with a has/val model it is a function of the key set; for unmodelled maps (struct keys)
// it is an uninterpreted function of the map reference and the heap epoch (any write to such a map starts a new epoch).
func (e *Enc) mapLen(st *State, t types.Type, m *Val) *Val {
	mi := mapInfoOf(t)
	var term string
	if mi.ok {
		card := e.declareFun("card!"+mi.ksort, "((Array "+mi.ksort+" Bool)) Int")
		term = ite(eq(m.c[0], "null"), "0", app(card, sel(e.marr(st, mi.hasN, mi.ksort, "Bool"), m.c[0])))
		// card = 0 iff the key set is empty (the two facts the FUCs rely on)
		empty := fmt.Sprintf("((as const (Array %s Bool)) false)", mi.ksort)
		e.assume(eq(app(card, empty), "0"))
		e.assume(imp(not(eq(m.c[0], "null")), eq(eq(app(card, sel(e.marr(st, mi.hasN, mi.ksort, "Bool"), m.c[0])), "0"), eq(sel(e.marr(st, mi.hasN, mi.ksort, "Bool"), m.c[0]), empty))))
	} else {
		f := e.declareFun("maplen!unmodelled", "(Ref Int) Int")
		term = ite(eq(m.c[0], "null"), "0", app(f, m.c[0], num(int64(st.epoch))))
	}
	v := e.fresh("len", "Int")
	e.assume(eq(v, term))
	e.assume(app(">=", v, "0"))
	return &Val{typ: tInt, c: []string{v}}
}

var headerOps = map[string]string{
	"(net/http.Header).Get": "get", "(net/http.Header).Set": "set", "(net/http.Header).Add": "add", "(net/http.Header).Del": "del",
	"(net/textproto.MIMEHeader).Get": "get", "(net/textproto.MIMEHeader).Set": "set", "(net/textproto.MIMEHeader).Add": "add", "(net/textproto.MIMEHeader).Del": "del",
}

// canon: textproto.CanonicalMIMEHeaderKey as an uninterpreted function, evaluated for literals.
func (e *Enc) canon(k string) string {
	f := e.declareFun("uf!textproto.canon", "(Str) Str")
	t := app(f, k)
	if lit, ok := e.litOf[k]; ok {
		key := "canonfact:" + k
		if !e.declared[key] {
			e.declared[key] = true
			e.assume(eq(t, e.strLit(textproto.CanonicalMIMEHeaderKey(lit))))
		}
	}
	return t
}

// headerOp gives http.Header / textproto.MIMEHeader methods their map semantics (Get/Set/Add/Del over the
// canonicalised key) instead of treating them as opaque dependency calls. Assumed from the net/http documentation.
func (e *Enc) headerOp(in *ssa.Call, callee *ssa.Function, site string, argv []*Val, st *State) bool {
	op, ok := headerOps[callee.String()]
	if !ok {
		return false
	}
	mi := mapInfoOf(argv[0].typ)
	if !mi.ok {
		return false
	}
	e.note("http.Header.%s modelled as a map operation on the canonicalised key (net/http documentation)", callee.Name())
	h := argv[0].c[0]
	ck := e.canon(argv[1].c[0])
	tstr := types.Typ[types.String]
	cell := func(s *State) string { return e.arr(s, "C|"+typeKey(tstr)+"|", "Str") }
	switch op {
	case "get":
		has := e.mapHas(st, mi, h, ck)
		v := e.mapGet(st, mi, h, ck)
		r := e.fresh("hdr.get", "Str")
		first := sel(cell(st), app("elem", v.c[0], v.c[1]))
		e.assume(eq(r, ite(and(has, app(">", v.c[2], "0")), first, "str!empty")))
		res := &Val{typ: in.Type(), c: []string{r}}
		e.set(in, res)
		e.siteResults[fmt.Sprintf("%s#%d", site, e.lastOrd[site])] = res
	case "set", "add":
		e.oblige("mapnil", "header", in.Pos(), not(eq(h, "null")))
		ref := e.allocRef(st)
		has := e.mapHas(st, mi, h, ck)
		old := e.mapGet(st, mi, h, ck)
		n := "1"
		if op == "add" {
			n = app("+", ite(has, old.c[2], "0"), "1")
		}
		last := app("-", n, "1")
		cname := "C|" + typeKey(tstr) + "|"
		e.setArr(st, cname, "Str", sto(cell(st), app("elem", ref, last), argv[2].c[0]))
		hm := e.marr(st, mi.hasN, mi.ksort, "Bool")
		e.setMarr(st, mi.hasN, mi.ksort, "Bool", sto(hm, h, sto(sel(hm, h), ck, "true")))
		nv := []string{ref, "0", n, n}
		for j, l := range leaves(mi.vt) {
			a := e.marr(st, mi.valN(l), mi.ksort, l.sort)
			e.setMarr(st, mi.valN(l), mi.ksort, l.sort, sto(a, h, sto(sel(a, h), ck, nv[j])))
		}
	case "del":
		e.mapDelete(argv[0].typ, h, ck, st)
	}
	return true
}

// localClosureCall: a call through a local variable that holds a function literal of this function. The closure's
// contract (if any) is applied: preconditions are obligations, the inferred write set is havocked, postconditions
// are assumed; free variables in the contract mean the captured variables' current values.
func (e *Enc) localClosureCall(in *ssa.Call, lf *ssa.Function, c *ssa.CallCommon, st *State) {
	con := e.db.byFunc[fname(lf)]
	vars := map[string]*Val{}
	for i, p := range lf.Params {
		if i < len(c.Args) {
			vars[p.Name()] = e.val(c.Args[i])
		}
	}
	// bindings of the closure: found at its creation site in this function (or, for a captured closure variable,
	// in the enclosing function: then captured values are not known here)
	for _, b := range e.fn.Blocks {
		for _, ins := range b.Instrs {
			mc, ok := ins.(*ssa.MakeClosure)
			if !ok || mc.Fn != lf {
				continue
			}
			for i, fv := range lf.FreeVars {
				bd := mc.Bindings[i]
				if a, ok := bd.(*ssa.Alloc); ok {
					if pv, known := e.vals[a]; known {
						vars[fv.Name()] = e.loadAt(st, pv.c[0], a.Type().Underlying().(*types.Pointer).Elem())
					}
				} else if bv, known := e.vals[bd]; known {
					vars[fv.Name()] = bv
				}
			}
		}
	}
	pre := st.clone()
	if con != nil {
		env := &Env{e: e, st: st, old: st, vars: vars, noLocals: true}
		for _, r := range con.Requires {
			e.obligeClause("pre:"+lf.Name(), r, in.Pos(), env.formula(r.E))
		}
	}
	e.applyEffect(st, e.effectOf(lf))
	res := e.freshVal("localcall."+lf.Name(), in.Type())
	e.existing(st, res)
	e.set(in, res)
	if con != nil {
		results := lf.Signature.Results()
		if results.Len() == 1 {
			vars["result"], vars["result0"] = res, res
			if types.TypeString(results.At(0).Type(), nil) == "error" {
				vars["err"] = res
			}
		} else {
			for i := 0; i < results.Len(); i++ {
				lo, hi := tupleRange(results, i)
				rv := &Val{typ: results.At(i).Type(), c: res.c[lo:hi]}
				vars[fmt.Sprintf("result%d", i)] = rv
				if i == 0 {
					vars["result"] = rv
				}
				if types.TypeString(results.At(i).Type(), nil) == "error" {
					vars["err"] = rv
				}
			}
		}
		// free variables after the call
		for _, b := range e.fn.Blocks {
			for _, ins := range b.Instrs {
				if mc, ok := ins.(*ssa.MakeClosure); ok && mc.Fn == lf {
					for i, fv := range lf.FreeVars {
						if a, ok := mc.Bindings[i].(*ssa.Alloc); ok {
							if pv, known := e.vals[a]; known {
								vars[fv.Name()] = e.loadAt(st, pv.c[0], a.Type().Underlying().(*types.Pointer).Elem())
							}
						}
					}
				}
			}
		}
		env := &Env{e: e, st: st, old: &pre, vars: vars, noLocals: true, foreign: true}
		for _, en := range con.Ensures {
			if e.active(en) {
				// a clause that speaks about the callee's internals (resultof / reached of its own call sites) cannot be
				// used by callers: it is simply not assumed
				if f, ok := e.tryFormula(env, en.E); ok {
					e.assumeHere(f)
				}
			}
		}
	}
	site := "dyn:" + callbackNameOr(c.Value)
	e.siteResults[fmt.Sprintf("%s#%d", site, e.lastOrd[site])] = res
}

func callbackNameOr(v ssa.Value) string {
	if n := callbackName(v); n != "" {
		return n
	}
	return exprText(v)
}

func (e *Enc) tryFormula(env *Env, x Expr) (f string, ok bool) {
	defer func() {
		if r := recover(); r != nil {
			f, ok = "", false
		}
	}()
	return env.formula(x), true
}

// appendOp: Go's append. The result reuses the argument's backing array when its capacity suffices and is a freshly
// allocated array otherwise; existing elements keep their values, the appended ones follow, every other cell of the
// heap is unchanged.
func (e *Enc) appendOp(in *ssa.Call, args []ssa.Value, st *State) {
	x, y := e.val(args[0]), e.val(args[1])
	sl, ok := in.Type().Underlying().(*types.Slice)
	if !ok {
		e.set(in, e.freshVal("append", in.Type()))
		return
	}
	fromString := isString(args[1].Type())
	n := ""
	if fromString {
		n = app("slen", y.c[0])
	} else {
		n = y.c[2]
	}
	nb := e.allocRef(st)
	newLen := app("+", x.c[2], n)
	inplace := e.fresh("append.inplace", "Bool")
	e.assume(eq(inplace, and(not(eq(x.c[0], "null")), app("<=", newLen, x.c[3]))))
	rb := e.fresh("append.base", "Ref")
	ro := e.fresh("append.off", "Int")
	rc := e.fresh("append.cap", "Int")
	e.assume(eq(rb, ite(inplace, x.c[0], nb)))
	e.assume(eq(ro, ite(inplace, x.c[1], "0")))
	e.assume(and(app(">=", rc, newLen), app("<=", rc, "72057594037927936"), imp(inplace, eq(rc, x.c[3]))))
	elemT := sl.Elem()
	type lf struct{ name, sort string }
	var arrs []lf
	if s, isS := isStruct(elemT); isS {
		key := structKey(elemT)
		var walk func(s *types.Struct, key string)
		walk = func(s *types.Struct, key string) {
			for i := 0; i < s.NumFields(); i++ {
				f := s.Field(i)
				if fs, ok := isStruct(f.Type()); ok {
					_ = fs
					e.unsupported("append: nested struct field %s.%s of slice elements is not tracked", key, f.Name())
					continue
				}
				for _, l := range leaves(f.Type()) {
					arrs = append(arrs, lf{"F|" + key + "|" + f.Name() + "|" + l.path, l.sort})
				}
			}
		}
		walk(s, key)
	} else {
		for _, l := range leaves(elemT) {
			arrs = append(arrs, lf{"C|" + typeKey(elemT) + "|" + l.path, l.sort})
		}
	}
	// literal element count (the usual append(s, a, b) shape)?
	lit := -1
	if !fromString {
		if k, err := strconv.Atoi(y.c[2]); err == nil && k >= 0 && k <= 4 {
			lit = k
		}
	}
	// element values are read before the heap changes
	var newElems []*Val
	for k := 0; k < lit; k++ {
		newElems = append(newElems, e.loadAt(st, app("elem", y.c[0], app("+", y.c[1], num(int64(k)))), elemT))
	}
	isStructElem := false
	if _, ok := isStruct(elemT); ok {
		isStructElem = true
	}
	for ai, a := range arrs {
		old := e.arr(st, a.name, a.sort)
		e.n++
		nw := e.declare(fmt.Sprintf("%s@%d", a.name, e.n), "(Array Ref "+a.sort+")")
		st.m[a.name] = nw
		cellRef := func(base, idx string) string {
			r := app("elem", base, idx)
			return r
		}
		_ = cellRef
		written := fmt.Sprintf("(and ((_ is elem) r) (= (ebase r) %s) (or (not %s) (and (<= (+ %s %s) (eidx r)) (< (eidx r) (+ %s %s)))))", rb, inplace, ro, x.c[2], ro, newLen)
		if isStructElem {
			// struct elements live in the field arrays of their struct type at the element reference itself
		}
		e.assume(fmt.Sprintf("(forall ((r Ref)) (! (=> (not %s) (= (select %s r) (select %s r))) :pattern ((select %s r))))", written, nw, old, nw))
		// prefix preserved
		e.assume(fmt.Sprintf("(forall ((j Int)) (! (=> (and (<= %s j) (< j (+ %s %s))) (= (select %s (elem %s j)) (select %s (elem %s (+ %s (- j %s)))))) :pattern ((select %s (elem %s j)))))",
			ro, ro, x.c[2], nw, rb, old, x.c[0], x.c[1], ro, nw, rb))
		// appended elements
		switch {
		case lit >= 0:
			for k := 0; k < lit; k++ {
				e.assume(eq(sel(nw, app("elem", rb, app("+", ro, app("+", x.c[2], num(int64(k)))))), leafOf(newElems[k], elemT, ai)))
			}
		case fromString:
			e.assume(fmt.Sprintf("(forall ((j Int)) (! (=> (and (<= (+ %s %s) j) (< j (+ %s %s))) (= (select %s (elem %s j)) (sat %s (- j (+ %s %s))))) :pattern ((select %s (elem %s j)))))",
				ro, x.c[2], ro, newLen, nw, rb, y.c[0], ro, x.c[2], nw, rb))
		default:
			e.assume(fmt.Sprintf("(forall ((j Int)) (! (=> (and (<= (+ %s %s) j) (< j (+ %s %s))) (= (select %s (elem %s j)) (select %s (elem %s (+ %s (- j (+ %s %s))))))) :pattern ((select %s (elem %s j)))))",
				ro, x.c[2], ro, newLen, nw, rb, old, y.c[0], y.c[1], ro, x.c[2], nw, rb))
		}
	}
	e.set(in, &Val{typ: in.Type(), c: []string{rb, ro, newLen, rc}})
}

// leafOf: the i-th scalar leaf (in the order appendOp enumerates the element arrays) of an element value.
func leafOf(v *Val, elemT types.Type, i int) string {
	if s, ok := isStruct(elemT); ok {
		idx := 0
		for fi := 0; fi < s.NumFields(); fi++ {
			f := s.Field(fi)
			lo, hi := fieldRange(s, fi)
			if _, nested := isStruct(f.Type()); nested {
				continue
			}
			for k := lo; k < hi; k++ {
				if idx == i {
					return v.c[k]
				}
				idx++
			}
		}
		return v.c[0]
	}
	return v.c[i]
}

// sortedAfter: the assumed contract of sort.Strings / sort.Slice / sort.SliceStable: afterwards no element is smaller
// than an earlier one under the key order. For sort.Slice the key comes from the comparator closure's `sortedby`
// declaration, which is proved against the closure's body when the closure is verified.
func (e *Enc) sortedAfter(callee *ssa.Function, args []ssa.Value, argv []*Val, st *State) {
	if len(args) == 0 {
		return
	}
	var sl *Val
	field := ""
	switch callee.Name() {
	case "Strings", "Ints":
		sl = argv[0]
	case "Slice", "SliceStable":
		mi, ok := args[0].(*ssa.MakeInterface)
		if !ok || len(args) < 2 {
			return
		}
		sl = e.val(mi.X)
		mc, ok := args[1].(*ssa.MakeClosure)
		if !ok {
			return
		}
		fn, _ := mc.Fn.(*ssa.Function)
		if fn == nil {
			return
		}
		con := e.db.byFunc[fname(fn)]
		if con == nil || len(con.SortedBy) == 0 {
			e.note("sort.%s with a comparator that has no sortedby declaration: nothing is assumed about the order", callee.Name())
			return
		}
		if len(con.SortedBy) > 1 {
			field = con.SortedBy[1]
		}
	default:
		return
	}
	st2, ok := sl.typ.Underlying().(*types.Slice)
	if !ok {
		return
	}
	elemT := st2.Elem()
	keyAt := func(idx string) *Val {
		ref := app("elem", sl.c[0], idx)
		v := e.loadAt(st, ref, elemT)
		if field != "" {
			s, ok := isStruct(elemT)
			if !ok {
				return nil
			}
			for i := 0; i < s.NumFields(); i++ {
				if s.Field(i).Name() == field {
					lo, hi := fieldRange(s, i)
					return &Val{typ: s.Field(i).Type(), c: v.c[lo:hi]}
				}
			}
			return nil
		}
		return v
	}
	ka, kb := keyAt("a"), keyAt("b")
	if ka == nil || kb == nil || len(ka.c) != 1 {
		return
	}
	var lt string
	if isString(ka.typ) {
		lt = e.strlt(kb.c[0], ka.c[0])
	} else {
		lt = e.numLess(kb, ka)
	}
	e.note("sort.%s is assumed to leave its slice sorted under the declared key order (permutation property not used)", callee.Name())
	e.assume(fmt.Sprintf("(forall ((a Int) (b Int)) (! (=> (and (<= %s a) (< a b) (< b (+ %s %s))) (not %s)) :pattern (%s %s)))",
		sl.c[1], sl.c[1], sl.c[2], lt, ka.c[0], kb.c[0]))
}

func (e *Enc) pureCallback(name string) bool {
	for fn := e.fn; fn != nil; fn = fn.Parent() {
		if c := e.db.byFunc[fname(fn)]; c != nil && c.PureCallbacks[name] {
			return true
		}
	}
	return false
}

// mathOp: IEEE semantics for the handful of math functions the codecs use.
func (e *Enc) mathOp(in *ssa.Call, callee *ssa.Function, argv []*Val) bool {
	if pkgPathOf(callee) != "math" {
		return false
	}
	r := func(t string) bool {
		e.set(in, &Val{typ: in.Type(), c: []string{t}})
		return true
	}
	switch callee.Name() {
	case "IsNaN":
		return r(app("fp.isNaN", argv[0].c[0]))
	case "IsInf":
		x, s := argv[0].c[0], argv[1].c[0]
		return r(and(app("fp.isInfinite", x), or(eq(s, "0"), and(app(">", s, "0"), app("fp.isPositive", x)), and(app("<", s, "0"), app("fp.isNegative", x)))))
	case "Inf":
		return r(ite(app(">=", argv[0].c[0], "0"), "(_ +oo 11 53)", "(_ -oo 11 53)"))
	case "NaN":
		return r("(_ NaN 11 53)")
	case "Float64bits":
		return r(e.floatBits(argv[0].c[0], 64))
	case "Float32bits":
		return r(e.floatBits(argv[0].c[0], 32))
	}
	return false
}

// unreachedSite is the panic value of resultof("site#n") when that call has not been executed before the point of evaluation.
type unreachedSite string

// floatBits: math.Float64bits / Float32bits as an uninterpreted function from the IEEE value to its bit pattern (an
// integer), with the facts that matter: range, injectivity off NaN (through an inverse), and the two zeros.
func (e *Enc) floatBits(x string, w int) string {
	sort, top, negz := "(_ FloatingPoint 11 53)", "18446744073709551616", "9223372036854775808"
	pz, nz := "(_ +zero 11 53)", "(_ -zero 11 53)"
	if w == 32 {
		sort, top, negz = "(_ FloatingPoint 8 24)", "4294967296", "2147483648"
		pz, nz = "(_ +zero 8 24)", "(_ -zero 8 24)"
	}
	f := e.declareFun(fmt.Sprintf("f%dbits", w), "("+sort+") Int")
	g := e.declareFun(fmt.Sprintf("f%dfrombits", w), "(Int) "+sort)
	key := fmt.Sprintf("floatbits%d:axioms", w)
	if !e.declared[key] {
		e.declared[key] = true
		e.assume(eq(app(f, pz), "0"))
		e.assume(eq(app(f, nz), negz))
	}
	r := app(f, x)
	if k := "floatbits:" + r; !e.declared[k] {
		e.declared[k] = true
		e.assume(and(app("<=", "0", r), app("<", r, top)))
		e.assume(imp(not(app("fp.isNaN", x)), eq(app(g, r), x)))
	}
	return r
}
