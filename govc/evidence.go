package main

import (
	"encoding/json"
	"fmt"
	"os"
	"path/filepath"
	"sort"
	"strings"
	"time"
)

func writeEvidence(cfg *PropConfig, tier string, seed int, runs []*FuncRun, total, discharged int, byBackend map[string]int,
	solverTime time.Duration, samples []map[string]any, coverLive, coverDead int, known []string, violations int, wall float64,
	contractFiles, axioms, unsup, notes []string, failures []*Failure) {
	var fucs []map[string]any
	for _, r := range runs {
		if r.Enc == nil {
			continue
		}
		owned := 0
		for _, o := range r.Enc.obls {
			if o.Owned && !(o.Houdini >= 0 && !r.Enc.cands[o.Houdini].user) {
				owned++
			}
		}
		fucs = append(fucs, map[string]any{"function": r.Name, "blocks": len(r.Fn.Blocks), "constraints": len(r.Enc.cons), "obligations": owned,
			"safety_owned": r.Cfg.Safety, "inferred_invariants": r.Kept, "houdini_rounds": r.Rounds, "has_contract": r.Enc.con != nil})
	}
	var trusted []string
	trustedSeen := map[string]bool{}
	for _, r := range runs {
		for n, c := range r.Mod.DB.byFunc {
			if c.Trusted && !trustedSeen[n] {
				trustedSeen[n] = true
				trusted = append(trusted, "assumed contract on dependency: "+n)
			}
		}
	}
	sort.Strings(trusted)
	var fl []map[string]any
	for _, f := range failures {
		fl = append(fl, map[string]any{"obligation": f.Name, "reason": f.Reason, "known": f.Known != nil, "replay": f.Replay, "replayed": f.Replayed})
	}
	if samples == nil {
		samples = []map[string]any{}
	}
	cov := map[string]any{
		"obligations": total,
		"discharged":  discharged,
		"checker_cmd": strings.Join(solverCmdlines, " | "),
		"trusted_base": []string{
			"Go front end (go/packages, go/types) and golang.org/x/tools/go/ssa v0.29.0",
			"govc VC generator (/verif/govc): SSA -> SMT-LIB encoding, guarded by cover checks, the must-fail selftest corpus and solver-error = failure",
			"z3 4.8.12, z3 5.1.0, cvc5 1.0.3 (an unsat from any one is accepted in the quick tier; the thorough tier additionally asks a second back end)",
		},
		"samples":                  samples,
		"by_backend":               byBackend,
		"solver_time_s":            solverTime.Seconds(),
		"functions_under_contract": fucs,
		"cover_checks":             map[string]int{"live": coverLive, "dead_as_baselined": coverDead},
		"bounded":                  cfg.Bounded,
		"known_findings":           dedupe(known),
		"not_covered":              cfg.NotCovered,
		"contract_files":           dedupe(contractFiles),
		"spec_axioms":              dedupe(axioms),
		"outside_subset":           dedupe(unsup),
		"failures":                 fl,
		"integers":                 "mathematical integers with explicit overflow obligations (#ovf); unsigned arithmetic wraps in functions marked `mode wrap`; floats are IEEE-754 (SMT FloatingPoint)",
	}
	// stage G: obligations on the output of the real generator for the corpus manifest (bounded in programs)
	nCorpus := 0
	corpusManifest := ""
	for _, mc := range cfg.Modules {
		if mc.Corpus != "" {
			corpusManifest = mc.Corpus
		}
	}
	for _, r := range runs {
		if r.Mod != nil && r.Enc != nil && strings.HasPrefix(r.Name, "corpus/") {
			for _, o := range r.Enc.obls {
				if o.Owned && o.Result.Status == "unsat" {
					nCorpus++
				}
			}
		}
	}
	if corpusManifest != "" {
		cov["stage_g"] = map[string]any{"manifest": corpusManifest, "discharged_on_generator_output": nCorpus,
			"label": "bounded in programs: these obligations are about the code the REAL generator emits for this corpus manifest on this run (for all inputs of that code), not about every schema"}
	}
	assumptions := append([]string{}, cfg.Assumptions...)
	assumptions = append(assumptions, trusted...)
	// entry preconditions: proved at the call sites that lie inside the kernel, ASSUMED for every other caller (net/http,
	// generated bindings, user code)
	var pres []string
	for _, r := range runs {
		if r.Enc == nil || r.Enc.con == nil {
			continue
		}
		for _, c := range r.Enc.con.Requires {
			if r.Enc.active(c) {
				pres = append(pres, fmt.Sprintf("entry precondition of %s (obligation at call sites inside the kernel, assumed for all other callers): %s", r.Name, c.Src))
			}
		}
	}
	assumptions = append(assumptions, dedupe(pres)...)
	assumptions = append(assumptions, dedupe(notes)...)
	assumptions = append(assumptions,
		"len(x) <= 2^56 for every string and slice",
		"every object reachable at function entry was allocated before entry (heap closedness)",
		"receivers of pointer-receiver methods under contract are non-nil",
		"deferred calls and recover() are not executed symbolically; goroutines are outside the subset",
	)
	ev := map[string]any{
		"property_id": cfg.ID,
		"tier":        tier,
		"seed":        seed,
		"level":       "proof",
		"coverage":    cov,
		"assumptions": assumptions,
		"wall_s":      wall,
		"violations":  violations,
	}
	os.MkdirAll(filepath.Join(verifRoot, "evidence"), 0755)
	raw, _ := json.MarshalIndent(ev, "", " ")
	if err := os.WriteFile(filepath.Join(verifRoot, "evidence", cfg.ID+".json"), raw, 0644); err != nil {
		fmt.Fprintln(os.Stderr, "evidence:", err)
	}
}
