package main

import (
	"fmt"
	"math/big"
	"strings"
	"sort"
	"go/token"
	"go/types"

	"golang.org/x/tools/go/ssa"
)

func isInt(t types.Type) bool {
	b, ok := t.Underlying().(*types.Basic)
	return ok && b.Info()&types.IsInteger != 0
}
func isString(t types.Type) bool {
	b, ok := t.Underlying().(*types.Basic)
	return ok && b.Info()&types.IsString != 0
}
func isFloat(t types.Type) bool {
	b, ok := t.Underlying().(*types.Basic)
	return ok && b.Info()&types.IsFloat != 0
}

func (e *Enc) set(v ssa.Value, x *Val) { e.vals[v] = x }

// allocRef: a new object. Its id lies above the allocation watermark of the current path (so it differs from every
// object that exists at this point - pre-existing ones, earlier allocations, objects returned by earlier calls) and
// below the id regions reserved for objects allocated inside callees.
func (e *Enc) allocRef(st *State) string {
	e.n++
	k := e.declare(fmt.Sprintf("new!%d", e.n), "Int")
	e.assume(and(app(">", k, e.watermark(st)), app("<", k, "(+ |alloc!0| 1000000000)")))
	arrSorts["G|wm"] = "Int"
	st.m["G|wm"] = k
	return app("obj", k)
}

// calleeWatermark: ids of objects allocated inside callees (and by unknown code) lie in (alloc0+10^9, cw].
func (e *Enc) calleeWatermark(st *State) string {
	if t, ok := st.m["G|cw"]; ok {
		return t
	}
	return "(+ |alloc!0| 1000000000)"
}

func (e *Enc) watermark(st *State) string {
	if t, ok := st.m["G|wm"]; ok {
		return t
	}
	return "|alloc!0|"
}

// existing: a reference that comes out of unknown code or out of the heap designates an object that exists now:
// allocated before entry, by this path so far, or inside a callee (its own id region).
func (e *Enc) existing(st *State, v *Val) {
	wm := e.watermark(st)
	cw := e.calleeWatermark(st)
	for k, l := range leaves(v.typ) {
		if l.sort != "Ref" || k >= len(v.c) {
			continue
		}
		for _, r := range []string{v.c[k], owner(v.c[k]), owner(owner(v.c[k]))} {
			e.assumeHere(fmt.Sprintf("(=> ((_ is obj) %s) (or (<= (oid %s) %s) (and (> (oid %s) (+ |alloc!0| 1000000000)) (<= (oid %s) %s))))", r, r, wm, r, r, cw))
		}
	}
}

func (e *Enc) instr(in ssa.Instruction, st *State) {
	switch in := in.(type) {
	case *ssa.DebugRef, *ssa.RunDefers:
		return
	case *ssa.Defer:
		e.unsupported("defer (deferred call not executed symbolically)")
		return
	case *ssa.Go, *ssa.Send, *ssa.Select, *ssa.MakeChan:
		e.unsupported("concurrency instruction %T", in)
		if v, ok := in.(ssa.Value); ok {
			e.set(v, e.freshVal("conc", v.Type()))
		}
		return
	case *ssa.Alloc:
		ref := e.allocRef(st)
		t := in.Type().Underlying().(*types.Pointer).Elem()
		if _, ok := t.Underlying().(*types.Array); ok {
			// arrays live in element cells; nothing to zero precisely here
		} else {
			e.storeAt(st, ref, t, zeroVal(t))
		}
		e.set(in, &Val{typ: in.Type(), c: []string{ref}})
		st.unesc[in] = ref
	case *ssa.FieldAddr:
		x := e.val(in.X)
		stt := in.X.Type().Underlying().(*types.Pointer).Elem()
		s := stt.Underlying().(*types.Struct)
		f := s.Field(in.Field)
		e.oblige("nil", exprText(in.X), in.Pos(), not(eq(x.c[0], "null")))
		sub := app("emb", x.c[0], num(int64(in.Field)))
		e.set(in, &Val{typ: in.Type(), c: []string{sub}})
		if _, ok := isStruct(f.Type()); ok {
			e.locs[in] = &Loc{ref: sub, typ: f.Type()}
		} else {
			e.locs[in] = &Loc{field: true, ref: x.c[0], skey: structKey(stt), fname: f.Name(), typ: f.Type()}
		}
	case *ssa.Field:
		x := e.val(in.X)
		s := in.X.Type().Underlying().(*types.Struct)
		lo, hi := fieldRange(s, in.Field)
		e.set(in, &Val{typ: in.Type(), c: x.c[lo:hi]})
	case *ssa.IndexAddr:
		x := e.val(in.X)
		i := e.val(in.Index).c[0]
		switch t := in.X.Type().Underlying().(type) {
		case *types.Slice:
			e.oblige("index", exprText(in.X)+"["+exprText(in.Index)+"]", in.Pos(), and(app("<=", "0", i), app("<", i, x.c[2])))
			ref := app("elem", x.c[0], app("+", x.c[1], i))
			e.set(in, &Val{typ: in.Type(), c: []string{ref}})
			e.locs[in] = &Loc{ref: ref, typ: t.Elem()}
		case *types.Pointer:
			at := t.Elem().Underlying().(*types.Array)
			e.oblige("index", exprText(in.X)+"["+exprText(in.Index)+"]", in.Pos(), and(app("<=", "0", i), app("<", i, num(at.Len()))))
			ref := app("elem", x.c[0], i)
			e.set(in, &Val{typ: in.Type(), c: []string{ref}})
			e.locs[in] = &Loc{ref: ref, typ: at.Elem()}
		default:
			e.unsupported("IndexAddr on %s", in.X.Type())
			e.set(in, e.freshVal("ia", in.Type()))
		}
	case *ssa.UnOp:
		e.unop(in, st)
	case *ssa.BinOp:
		e.binop(in)
	case *ssa.Store:
		l := e.locOf(in.Addr)
		if _, isAlloc := in.Addr.(*ssa.Alloc); !isAlloc {
			if _, isFA := in.Addr.(*ssa.FieldAddr); !isFA {
				if _, isIA := in.Addr.(*ssa.IndexAddr); !isIA {
					e.oblige("nil", exprText(in.Addr), in.Pos(), not(eq(e.val(in.Addr).c[0], "null")))
				}
			}
		}
		if fa, ok := in.Addr.(*ssa.FieldAddr); ok && e.con != nil {
			// store-site hooks: "store:pkg.Struct.field#n" (source order) for ghost reached flags and asserts on `value`
			stt := fa.X.Type().Underlying().(*types.Pointer).Elem()
			site := "store:" + structKey(stt) + "." + stt.Underlying().(*types.Struct).Field(fa.Field).Name()
			ord := e.storeOrdinal(in, site)
			key := fmt.Sprintf("%s#%d", site, ord)
			if e.ghostSites[key] {
				arrSorts["G|reached|"+key] = "Bool"
				st.m["G|reached|"+key] = "true"
			}
			if _, ok := e.iterSites[key]; ok {
				arrSorts["G|iter|"+key] = "Bool"
				st.m["G|iter|"+key] = "true"
			}
			for ai, a := range e.con.Asserts {
				if a.Callee == site && (a.Ordinal == ord || a.Ordinal < 0) {
					e.assertHit[ai] = true
				}
				if a.Callee == site && (a.Ordinal == ord || a.Ordinal < 0) && e.active(a.C) {
					vars := map[string]*Val{"value": e.val(in.Val), "target": e.val(fa.X)}
					for k, v := range e.params {
						vars[k] = v
					}
					env := &Env{e: e, st: st, old: &e.entry, vars: vars, at: in}
					o := e.oblige("assert", fmt.Sprintf("@%s:%s", key, shorten(a.C.Src)), in.Pos(), env.formula(a.C.E))
					o.Owned = true
					o.Clause = a.C
				}
			}
		}
		if fa, ok := in.Addr.(*ssa.FieldAddr); ok && e.con != nil && rootAlloc(in.Addr) == nil {
			stt := fa.X.Type().Underlying().(*types.Pointer).Elem()
			for _, nw := range e.con.NoWrite {
				if e.active(nw) && structKey(stt) == nw.Src {
					// frame: this function must not modify objects of this type that it did not allocate itself
					fld := stt.Underlying().(*types.Struct).Field(fa.Field).Name()
					o := e.oblige("frame", "nowrite:"+nw.Src+"."+fld, in.Pos(), "false")
					o.Owned = true
					o.Clause = nw
					e.cons = e.cons[:len(e.cons)-1]
				}
			}
		}
		if fa, ok := in.Addr.(*ssa.FieldAddr); ok {
			stt := fa.X.Type().Underlying().(*types.Pointer).Elem()
			fld := structKey(stt) + "." + stt.Underlying().(*types.Struct).Field(fa.Field).Name()
			if e.db.pureFields[fld] {
				ok := "false"
				if fn, isFn := in.Val.(*ssa.Function); isFn && purePkgs[pkgPathOf(fn)] {
					ok = "true"
				}
				o := e.oblige("fieldfn", fld+":=pure", in.Pos(), ok)
				o.Owned = true
			}
		}
		e.storeLoc(st, l, e.val(in.Val))
	case *ssa.Extract:
		x := e.val(in.Tuple)
		tt := in.Tuple.Type().(*types.Tuple)
		lo, hi := tupleRange(tt, in.Index)
		e.set(in, &Val{typ: in.Type(), c: x.c[lo:hi]})
	case *ssa.ChangeType:
		if x := e.val(in.X); len(x.c) == 1 && len(leaves(in.Type())) == 2 {
			tag := app(e.declareFun("tparam!tag", "(Int) Int"), x.c[0]) // a function of the value: the same value has the same dynamic type
			e.set(in, &Val{typ: in.Type(), c: []string{tag, app("box", x.c[0])}})
		} else {
			e.set(in, &Val{typ: in.Type(), c: x.c})
		}
	case *ssa.ChangeInterface:
		x := e.val(in.X)
		if len(x.c) == 1 && len(leaves(in.Type())) == 2 {
			// a value of type-parameter type viewed as an interface: unknown dynamic type, payload boxed
			tag := e.fresh("tparam.tag", "Int")
			e.set(in, &Val{typ: in.Type(), c: []string{tag, app("box", x.c[0])}})
		} else {
			e.set(in, &Val{typ: in.Type(), c: x.c})
		}
	case *ssa.MakeInterface:
		x := e.val(in.X)
		payload := ""
		if _, isTP := in.X.Type().(*types.TypeParam); isTP && len(x.c) == 1 {
			payload = app("box", x.c[0])
		} else if len(x.c) == 1 && leaves(in.X.Type())[0].sort == "Ref" {
			payload = x.c[0]
		} else {
			e.n++
			payload = app("box", e.declare(fmt.Sprintf("box!%d", e.n), "Int"))
		}
		e.set(in, &Val{typ: in.Type(), c: []string{e.typeTag(in.X.Type()), payload}})
	case *ssa.TypeAssert:
		x := e.val(in.X)
		var ok string
		if types.IsInterface(in.AssertedType) {
			f := e.declareFun("implements!"+typeKey(in.AssertedType), "(Int) Bool")
			ok = and(not(eq(x.c[0], "0")), app(f, x.c[0]))
		} else {
			ok = eq(x.c[0], e.typeTag(in.AssertedType))
		}
		var res *Val
		ls := leaves(in.AssertedType)
		if types.IsInterface(in.AssertedType) {
			res = &Val{typ: in.AssertedType, c: x.c}
		} else if len(ls) == 1 && ls[0].sort == "Ref" {
			res = &Val{typ: in.AssertedType, c: []string{x.c[1]}}
		} else {
			res = e.freshVal("unbox", in.AssertedType)
		}
		if in.CommaOk {
			okc := e.fresh("ok", "Bool")
			e.assume(eq(okc, ok))
			e.set(in, &Val{typ: in.Type(), c: append(append([]string{}, res.c...), okc)})
		} else {
			e.oblige("typeassert", exprText(in.X)+".("+typeKey(in.AssertedType)+")", in.Pos(), ok)
			e.set(in, res)
		}
	case *ssa.Convert:
		e.convert(in, st)
	case *ssa.Slice:
		e.sliceOp(in, st)
	case *ssa.Lookup:
		e.lookup(in, st)
	case *ssa.Index:
		if isString(in.X.Type()) {
			x := e.val(in.X)
			i := e.val(in.Index).c[0]
			e.oblige("index", exprText(in.X)+"["+exprText(in.Index)+"]", in.Pos(), and(app("<=", "0", i), app("<", i, app("slen", x.c[0]))))
			e.set(in, &Val{typ: in.Type(), c: []string{app("sat", x.c[0], i)}})
			break
		}
		e.unsupported("Index on array value")
		e.set(in, e.freshVal("idx", in.Type()))
	case *ssa.MapUpdate:
		e.mapUpdate(in, st)
		// ghost site "mapupdate#n" (n-th m[k] = v of the function in source order): reached() / thisiter() only
		{
			key := fmt.Sprintf("mapupdate#%d", e.mapUpdateOrdinal(in))
			if e.ghostSites[key] {
				arrSorts["G|reached|"+key] = "Bool"
				st.m["G|reached|"+key] = "true"
			}
			if _, ok := e.iterSites[key]; ok {
				arrSorts["G|iter|"+key] = "Bool"
				st.m["G|iter|"+key] = "true"
			}
		}
	case *ssa.MakeMap:
		e.makeMap(in, st)
	case *ssa.MakeSlice, *ssa.MakeClosure:
		v := in.(ssa.Value)
		ref := e.allocRef(st)
		switch v.Type().Underlying().(type) {
		case *types.Slice:
			ms := in.(*ssa.MakeSlice)
			ln, cp := e.val(ms.Len).c[0], e.val(ms.Cap).c[0]
			e.oblige("makeslice", "len<=cap", in.Pos(), and(app("<=", "0", ln), app("<=", ln, cp)))
			e.set(v, &Val{typ: v.Type(), c: []string{ref, "0", ln, cp}})
		default:
			e.set(v, &Val{typ: v.Type(), c: []string{ref}})
			if mc, ok := in.(*ssa.MakeClosure); ok {
				e.closurePre(mc, st)
			}
		}
	case *ssa.Range:
		if !e.rangeMap(in, st) {
			e.set(in, e.freshVal("range", in.Type()))
		}
	case *ssa.Next:
		if !e.nextMap(in, st) {
			e.set(in, e.freshVal("next", in.Type()))
		}
	case *ssa.Call:
		e.call(in, st)
	case *ssa.Return:
		var res []*Val
		for _, r := range in.Results {
			res = append(res, e.val(r))
		}
		e.rets = append(e.rets, retInfo{b: e.curBlock, res: res, st: st.clone()})
	case *ssa.Panic:
		e.oblige("panic", "unreachable", in.Pos(), "false")
	case *ssa.If, *ssa.Jump:
	default:
		e.unsupported("instruction %T", in)
		if v, ok := in.(ssa.Value); ok {
			e.set(v, e.freshVal("unsup", v.Type()))
		}
	}
}

func exprText(v ssa.Value) string {
	switch v := v.(type) {
	case *ssa.UnOp:
		if v.Op == token.MUL {
			if fa, ok := v.X.(*ssa.FieldAddr); ok {
				return exprText(fa)
			}
			return exprText(v.X)
		}
	case *ssa.FieldAddr:
		s := v.X.Type().Underlying().(*types.Pointer).Elem().Underlying().(*types.Struct)
		return exprText(v.X) + "." + s.Field(v.Field).Name()
	case *ssa.Parameter:
		return v.Name()
	case *ssa.Const:
		return v.Value.String()
	case *ssa.Phi:
		if v.Comment != "" {
			return v.Comment
		}
	case *ssa.Alloc:
		if v.Comment != "" {
			return v.Comment
		}
	}
	return v.Name()
}

func (e *Enc) unop(in *ssa.UnOp, st *State) {
	x := e.val(in.X)
	switch in.Op {
	case token.MUL:
		l := e.locOf(in.X)
		switch in.X.(type) {
		case *ssa.Alloc, *ssa.FieldAddr, *ssa.IndexAddr, *ssa.Global:
		default:
			e.oblige("nil", exprText(in.X), in.Pos(), not(eq(x.c[0], "null")))
		}
		v := e.loadLoc(st, l)
		// name the loaded value so models are readable and terms stay small
		out := &Val{typ: in.Type()}
		for k, lf := range leaves(in.Type()) {
			t := e.fresh("ld."+in.Name(), lf.sort)
			e.assume(eq(t, v.c[k]))
			out.c = append(out.c, t)
		}
		e.wellFormedVal(out)
		e.existing(st, out)
		e.set(in, out)
		if g, ok := in.X.(*ssa.Global); ok {
			e.closedFacts(g, out, st)
		}
	case token.NOT:
		e.set(in, &Val{typ: in.Type(), c: []string{not(x.c[0])}})
	case token.SUB:
		if isInt(in.Type()) {
			e.set(in, &Val{typ: in.Type(), c: []string{app("-", x.c[0])}})
		} else if isFloat(in.Type()) {
			e.set(in, &Val{typ: in.Type(), c: []string{app("fp.neg", x.c[0])}})
		} else {
			e.set(in, e.freshVal("neg", in.Type()))
		}
	default:
		e.set(in, e.freshVal("unop", in.Type()))
	}
}

func (e *Enc) binop(in *ssa.BinOp) {
	x, y := e.val(in.X), e.val(in.Y)
	t := in.X.Type()
	b := func(f string) { e.set(in, &Val{typ: in.Type(), c: []string{f}}) }
	switch {
	case isInt(t):
		switch in.Op {
		case token.ADD, token.SUB, token.MUL:
			op := map[token.Token]string{token.ADD: "+", token.SUB: "-", token.MUL: "*"}[in.Op]
			r := app(op, x.c[0], y.c[0])
			lo, hi := intRange(in.Type().Underlying().(*types.Basic))
			_, cx := in.X.(*ssa.Const)
			_, cy := in.Y.(*ssa.Const)
			if !(cx && cy) {
				e.oblige("ovf", exprText(in.X)+op+exprText(in.Y), in.Pos(), and(app("<=", lo, r), app("<=", r, hi)))
			}
			if isUnsigned(in.Type()) && !(cx && cy) && e.wrapUnsigned() {
				// unsigned arithmetic wraps (defined behaviour): where the overflow obligation is not claimed the value
				// must still be the wrapped one
				r = app("mod", r, app("+", hi, "1"))
			}
			b(r)
		case token.QUO:
			e.oblige("div", exprText(in.Y), in.Pos(), not(eq(y.c[0], "0")))
			// Go truncates toward zero; SMT div floors. Exact only for non-negative operands.
			b(ite(and(app(">=", x.c[0], "0"), app(">", y.c[0], "0")), app("div", x.c[0], y.c[0]), e.fresh("quo", "Int")))
		case token.REM:
			e.oblige("div", exprText(in.Y), in.Pos(), not(eq(y.c[0], "0")))
			b(ite(and(app(">=", x.c[0], "0"), app(">", y.c[0], "0")), app("mod", x.c[0], y.c[0]), e.fresh("rem", "Int")))
		case token.EQL:
			b(eq(x.c[0], y.c[0]))
		case token.NEQ:
			b(not(eq(x.c[0], y.c[0])))
		case token.LSS:
			b(app("<", x.c[0], y.c[0]))
		case token.LEQ:
			b(app("<=", x.c[0], y.c[0]))
		case token.GTR:
			b(app(">", x.c[0], y.c[0]))
		case token.GEQ:
			b(app(">=", x.c[0], y.c[0]))
		default:
			// bit operations in integer mode: exact for the shapes that occur on non-negative operands with constant
			// masks/shifts (c>>4, c&15, x<<k); anything else is an unconstrained value of the result type
			if r, ok := e.constBitOp(in, x, y); ok {
				b(r)
			} else {
				v := e.freshVal("bitop", in.Type())
				e.set(in, v)
			}
		}
	case isFloat(t):
		switch in.Op {
		case token.EQL:
			b(app("fp.eq", x.c[0], y.c[0]))
		case token.NEQ:
			b(not(app("fp.eq", x.c[0], y.c[0])))
		case token.LSS:
			b(app("fp.lt", x.c[0], y.c[0]))
		case token.LEQ:
			b(app("fp.leq", x.c[0], y.c[0]))
		case token.GTR:
			b(app("fp.gt", x.c[0], y.c[0]))
		case token.GEQ:
			b(app("fp.geq", x.c[0], y.c[0]))
		case token.ADD:
			b(app("fp.add", "RNE", x.c[0], y.c[0]))
		case token.SUB:
			b(app("fp.sub", "RNE", x.c[0], y.c[0]))
		case token.MUL:
			b(app("fp.mul", "RNE", x.c[0], y.c[0]))
		case token.QUO:
			b(app("fp.div", "RNE", x.c[0], y.c[0]))
		default:
			e.set(in, e.freshVal("fbinop", in.Type()))
		}
	case isString(t):
		switch in.Op {
		case token.EQL, token.NEQ:
			var f string
			if c, ok := in.Y.(*ssa.Const); ok {
				f = e.strEqLit(x.c[0], constantString(c))
			} else if c, ok := in.X.(*ssa.Const); ok {
				f = e.strEqLit(y.c[0], constantString(c))
			} else {
				f = eq(x.c[0], y.c[0])
			}
			if in.Op == token.NEQ {
				f = not(f)
			}
			b(f)
		case token.ADD:
			b(e.concat(x.c[0], y.c[0]))
		case token.LSS:
			b(e.strlt(x.c[0], y.c[0]))
		case token.GTR:
			b(e.strlt(y.c[0], x.c[0]))
		case token.LEQ:
			b(not(e.strlt(y.c[0], x.c[0])))
		case token.GEQ:
			b(not(e.strlt(x.c[0], y.c[0])))
		default:
			b(e.fresh("strcmp", "Bool"))
		}
	default:
		switch in.Op {
		case token.EQL, token.NEQ:
			var eqs []string
			for k := range x.c {
				eqs = append(eqs, eq(x.c[k], y.c[k]))
			}
			f := and(eqs...)
			if _, ok := t.Underlying().(*types.Interface); ok {
				// comparing with nil interface: tag decides
				if c, ok := in.Y.(*ssa.Const); ok && c.Value == nil {
					f = eq(x.c[0], "0")
				} else if c, ok := in.X.(*ssa.Const); ok && c.Value == nil {
					f = eq(y.c[0], "0")
				}
			}
			if sl, ok := t.Underlying().(*types.Slice); ok {
				_ = sl
				f = eq(x.c[0], "null") // slices compare only with nil
				if c, ok := in.X.(*ssa.Const); ok && c.Value == nil {
					f = eq(y.c[0], "null")
				}
			}
			if in.Op == token.NEQ {
				f = not(f)
			}
			b(f)
		default:
			if bt, ok := in.Type().Underlying().(*types.Basic); ok && bt.Info()&types.IsBoolean != 0 {
				b(e.fresh("cmp", "Bool"))
			} else {
				e.set(in, e.freshVal("binop", in.Type()))
			}
		}
	}
}

func constantString(c *ssa.Const) string {
	s := c.Value.ExactString()
	// ExactString is quoted
	var out string
	fmt.Sscanf(s, "%q", &out)
	return out
}

func (e *Enc) convert(in *ssa.Convert, st *State) {
	x := e.val(in.X)
	from, to := in.X.Type(), in.Type()
	switch {
	case isFloat(from) && isFloat(to):
		if leafSortOf(from) == leafSortOf(to) {
			e.set(in, &Val{typ: to, c: x.c})
		} else if leafSortOf(to) == fp64 {
			e.set(in, &Val{typ: to, c: []string{app("(_ to_fp 11 53)", "RNE", x.c[0])}})
		} else {
			e.set(in, &Val{typ: to, c: []string{app("(_ to_fp 8 24)", "RNE", x.c[0])}})
		}
	case isInt(from) && isFloat(to):
		op := "(_ to_fp 11 53)"
		if leafSortOf(to) == fp32 {
			op = "(_ to_fp 8 24)"
		}
		e.set(in, &Val{typ: to, c: []string{app(op, "RNE", app("to_real", x.c[0]))}})
	case isInt(from) && isInt(to):
		lo, hi := intRange(to.Underlying().(*types.Basic))
		flo, fhi := intRange(from.Underlying().(*types.Basic))
		if flo == lo && fhi == hi {
			e.set(in, &Val{typ: to, c: x.c})
			return
		}
		// narrowing wraps in Go; model the in-range case exactly, otherwise unconstrained in range
		r := e.freshVal("conv", to)
		e.assume(imp(and(app("<=", lo, x.c[0]), app("<=", x.c[0], hi)), eq(r.c[0], x.c[0])))
		if e.wrapUnsigned() {
			// exact two's-complement conversion: the result is the representative of x modulo 2^n in the target range
			m := app("+", app("-", hi, lo), "1")
			e.assume(and(app("<=", lo, r.c[0]), app("<=", r.c[0], hi), eq(app("mod", r.c[0], m), app("mod", x.c[0], m))))
		}
		e.set(in, r)
	case isString(to):
		if sl, ok := from.Underlying().(*types.Slice); ok {
			r := e.fresh("str", "Str")
			e.assume(eq(app("slen", r), x.c[2]))
			cell := e.arr(st, "C|"+typeKey(sl.Elem())+"|", "Int")
			e.assume(fmt.Sprintf("(forall ((i Int)) (! (=> (and (<= 0 i) (< i %s)) (= (sat %s i) (select %s (elem %s (+ %s i))))) :pattern ((sat %s i))))", x.c[2], r, cell, x.c[0], x.c[1], r))
			e.set(in, &Val{typ: to, c: []string{r}})
			return
		}
		e.set(in, e.freshVal("tostr", to))
	case isString(from):
		if sl, ok := to.Underlying().(*types.Slice); ok {
			ref := e.allocRef(st)
			n := "C|" + typeKey(sl.Elem()) + "|"
			old := e.arr(st, n, "Int")
			e.havocArr(st, n, "Int")
			nw := e.arr(st, n, "Int")
			ln := app("slen", x.c[0])
			e.assume(fmt.Sprintf("(forall ((r Ref)) (! (=> (not (and ((_ is elem) r) (= (ebase r) %s))) (= (select %s r) (select %s r))) :pattern ((select %s r))))", ref, nw, old, nw))
			e.assume(fmt.Sprintf("(forall ((i Int)) (! (=> (and (<= 0 i) (< i %s)) (= (select %s (elem %s i)) (sat %s i))) :pattern ((select %s (elem %s i)))))", ln, nw, ref, x.c[0], nw, ref))
			e.set(in, &Val{typ: to, c: []string{ref, "0", ln, ln}})
			return
		}
		e.set(in, e.freshVal("fromstr", to))
	default:
		e.set(in, e.freshVal("conv", to))
	}
}

func (e *Enc) sliceOp(in *ssa.Slice, st *State) {
	x := e.val(in.X)
	get := func(v ssa.Value, def string) string {
		if v == nil {
			return def
		}
		return e.val(v).c[0]
	}
	switch t := in.X.Type().Underlying().(type) {
	case *types.Slice:
		lo, hi := get(in.Low, "0"), get(in.High, x.c[2])
		mx := get(in.Max, x.c[3])
		e.oblige("slice", exprText(in.X)+"["+exprOr(in.Low)+":"+exprOr(in.High)+"]", in.Pos(), and(app("<=", "0", lo), app("<=", lo, hi), app("<=", hi, mx), app("<=", mx, x.c[3])))
		e.set(in, &Val{typ: in.Type(), c: []string{x.c[0], app("+", x.c[1], lo), app("-", hi, lo), app("-", mx, lo)}})
	case *types.Basic: // string
		ln := app("slen", x.c[0])
		lo, hi := get(in.Low, "0"), get(in.High, ln)
		e.oblige("slice", exprText(in.X)+"["+exprOr(in.Low)+":"+exprOr(in.High)+"]", in.Pos(), and(app("<=", "0", lo), app("<=", lo, hi), app("<=", hi, ln)))
		e.set(in, &Val{typ: in.Type(), c: []string{e.substr(x.c[0], lo, hi)}})
	case *types.Pointer: // pointer to array
		at := t.Elem().Underlying().(*types.Array)
		n := num(at.Len())
		lo, hi := get(in.Low, "0"), get(in.High, n)
		e.oblige("slice", exprText(in.X)+"[:]", in.Pos(), and(app("<=", "0", lo), app("<=", lo, hi), app("<=", hi, n)))
		ln, cp := app("-", hi, lo), app("-", n, lo)
		if lo == "0" {
			ln, cp = hi, n
		}
		e.set(in, &Val{typ: in.Type(), c: []string{x.c[0], lo, ln, cp}})
	default:
		e.unsupported("slice of %s", in.X.Type())
		e.set(in, e.freshVal("slice", in.Type()))
	}
}

func exprOr(v ssa.Value) string {
	if v == nil {
		return ""
	}
	return exprText(v)
}

func (e *Enc) lookup(in *ssa.Lookup, st *State) {
	x := e.val(in.X)
	if isString(in.X.Type()) {
		i := e.val(in.Index).c[0]
		e.oblige("index", exprText(in.X)+"["+exprText(in.Index)+"]", in.Pos(), and(app("<=", "0", i), app("<", i, app("slen", x.c[0]))))
		e.set(in, &Val{typ: in.Type(), c: []string{app("sat", x.c[0], i)}})
		return
	}
	if e.mapLookup(in, st) {
		return
	}
	// unsupported key shape: unconstrained result (sound over-approximation)
	e.set(in, e.freshVal("mapget", in.Type()))
}

// closurePre checks, where a closure is created, those preconditions of the closure's contract that speak only about
// captured variables. A variable captured by reference must not be assigned between creation and any call: checked
// syntactically (no store to its cell is reachable from the creation point, and none inside the closure).
func (e *Enc) closurePre(mc *ssa.MakeClosure, st *State) {
	fn, ok := mc.Fn.(*ssa.Function)
	if !ok {
		return
	}
	con := e.db.byFunc[fname(fn)]
	if con == nil || len(con.Requires) == 0 {
		return
	}
	vars := map[string]*Val{}
	refCells := map[string]*ssa.Alloc{}
	for i, fv := range fn.FreeVars {
		b := mc.Bindings[i]
		if a, ok := b.(*ssa.Alloc); ok {
			t := a.Type().Underlying().(*types.Pointer).Elem()
			vars[fv.Name()] = e.loadAt(st, e.val(a).c[0], t)
			refCells[fv.Name()] = a
		} else {
			vars[fv.Name()] = e.val(b)
		}
	}
	for _, r := range con.Requires {
		if !e.active(r) {
			continue
		}
		f, ok := func() (f string, ok bool) {
			defer func() {
				if recover() != nil {
					ok = false
				}
			}()
			env := &Env{e: e, st: st, old: st, vars: vars, noLocals: true}
			return env.formula(r.E), true
		}()
		if !ok {
			continue // mentions closure parameters: not checkable at creation
		}
		stable := "true"
		for name, a := range refCells {
			if !mentions(r.E, name) {
				continue
			}
			if storeReachableAfter(mc, a) {
				stable = "false"
			}
			if storesToFreeVar(fn, name) {
				// the closure itself assigns the variable: fine if it re-establishes the precondition (same clause
				// among its postconditions, proved when the closure is verified)
				re := false
				for _, en := range con.Ensures {
					if strings.Contains(strings.Join(strings.Fields(en.Src), ""), strings.Join(strings.Fields(r.Src), "")) {
						re = true
					}
				}
				if !re {
					stable = "false"
				}
			}
		}
		e.obligeClause("pre-closure:"+fn.Name(), r, mc.Pos(), and(f, stable))
	}
}

func mentions(x Expr, name string) bool {
	switch x := x.(type) {
	case *EIdent:
		return x.Name == name
	case *ESel:
		return mentions(x.X, name)
	case *EIndex:
		return mentions(x.X, name) || mentions(x.I, name)
	case *ECall:
		for _, a := range x.Args {
			if mentions(a, name) {
				return true
			}
		}
	case *EUnary:
		return mentions(x.X, name)
	case *EBinary:
		return mentions(x.L, name) || mentions(x.R, name)
	case *EForall:
		return mentions(x.Body, name)
	case *EExists:
		return mentions(x.Body, name)
	case *EOld:
		return mentions(x.X, name)
	}
	return false
}

func storeReachableAfter(mc *ssa.MakeClosure, a *ssa.Alloc) bool {
	isStore := func(in ssa.Instruction) bool {
		s, ok := in.(*ssa.Store)
		return ok && rootAlloc(s.Addr) == a
	}
	blk := mc.Block()
	after := false
	for _, in := range blk.Instrs {
		if in == ssa.Instruction(mc) {
			after = true
			continue
		}
		if after && isStore(in) {
			return true
		}
	}
	seen := map[*ssa.BasicBlock]bool{}
	var stack []*ssa.BasicBlock
	stack = append(stack, blk.Succs...)
	for len(stack) > 0 {
		b := stack[len(stack)-1]
		stack = stack[:len(stack)-1]
		if seen[b] {
			continue
		}
		seen[b] = true
		for _, in := range b.Instrs {
			if isStore(in) {
				return true
			}
		}
		stack = append(stack, b.Succs...)
	}
	return false
}

func storesToFreeVar(fn *ssa.Function, name string) bool {
	for _, b := range fn.Blocks {
		for _, in := range b.Instrs {
			if s, ok := in.(*ssa.Store); ok {
				if fv, ok := s.Addr.(*ssa.FreeVar); ok && fv.Name() == name {
					return true
				}
			}
		}
	}
	return false
}

// concat: string concatenation as an uninterpreted function with its length and content facts.
func (e *Enc) concat(a, b string) string {
	f := e.declareFun("str!concat", "(Str Str) Str")
	r := app(f, a, b)
	key := "concatfact:" + r
	if !e.declared[key] {
		e.declared[key] = true
		e.assume(eq(app("slen", r), app("+", app("slen", a), app("slen", b))))
		k := e.patTerm(r)
		e.assume(fmt.Sprintf("(forall ((i Int)) (! (= (sat %s i) (ite (< i (slen %s)) (sat %s i) (sat %s (- i (slen %s))))) :pattern ((sat %s i))))", k, a, a, b, a, k))
	}
	return r
}

// patTerm names a term that holds connectives solvers refuse inside patterns (ite, not, arithmetic) by a fresh constant.
func (e *Enc) patTerm(r string) string {
	if !strings.Contains(r, "(ite ") && !strings.Contains(r, "(not ") && !strings.Contains(r, "(+ ") && !strings.Contains(r, "(- ") {
		return r
	}
	k := e.fresh("strk", "Str")
	e.assume(eq(k, r))
	return k
}

// substr: s[lo:hi] as an uninterpreted function of (s, lo, hi) with its length and content facts; the same term is built
// for a contract's s[lo:hi], so code and contract agree syntactically.
func (e *Enc) substr(s, lo, hi string) string {
	f := e.declareFun("str!sub", "(Str Int Int) Str")
	r := app(f, s, lo, hi)
	key := "subfact:" + r
	if !e.declared[key] {
		e.declared[key] = true
		e.assume(imp(and(app("<=", "0", lo), app("<=", lo, hi), app("<=", hi, app("slen", s))), eq(app("slen", r), app("-", hi, lo))))
		k := e.patTerm(r)
		e.assume(fmt.Sprintf("(forall ((i Int)) (! (=> (and (<= 0 %s) (<= 0 i) (< i (- %s %s)) (<= %s (slen %s))) (= (sat %s i) (sat %s (+ %s i)))) :pattern ((sat %s i))))", lo, hi, lo, hi, s, k, s, lo, k))
	}
	return r
}

// storeOrdinal numbers the stores to one struct field in source order.
func (e *Enc) storeOrdinal(in *ssa.Store, site string) int {
	if e.storeOrd == nil {
		e.storeOrd = map[*ssa.Store]int{}
		by := map[string][]*ssa.Store{}
		for _, b := range e.fn.Blocks {
			for _, ins := range b.Instrs {
				if s, ok := ins.(*ssa.Store); ok {
					if fa, ok := s.Addr.(*ssa.FieldAddr); ok {
						stt := fa.X.Type().Underlying().(*types.Pointer).Elem()
						n := "store:" + structKey(stt) + "." + stt.Underlying().(*types.Struct).Field(fa.Field).Name()
						by[n] = append(by[n], s)
					}
				}
			}
		}
		for _, ss := range by {
			sort.SliceStable(ss, func(i, j int) bool { return ss[i].Pos() < ss[j].Pos() })
			for i, s := range ss {
				e.storeOrd[s] = i
			}
		}
	}
	return e.storeOrd[in]
}

func (e *Enc) mapUpdateOrdinal(in *ssa.MapUpdate) int {
	var all []*ssa.MapUpdate
	for _, b := range e.fn.Blocks {
		for _, ins := range b.Instrs {
			if mu, ok := ins.(*ssa.MapUpdate); ok {
				all = append(all, mu)
			}
		}
	}
	sort.SliceStable(all, func(i, j int) bool { return all[i].Pos() < all[j].Pos() })
	for i, mu := range all {
		if mu == in {
			return i
		}
	}
	return -1
}

// strlt: Go's < on strings (bytewise lexicographic order) as an uninterpreted strict total order.
func (e *Enc) strlt(a, b string) string {
	f := e.declareFun("str!lt", "(Str Str) Bool")
	if !e.declared["strlt:axioms"] {
		e.declared["strlt:axioms"] = true
		e.assume(fmt.Sprintf("(forall ((a Str)) (! (not (%s a a)) :pattern ((%s a a))))", f, f))
		e.assume(fmt.Sprintf("(forall ((a Str) (b Str)) (! (not (and (%s a b) (%s b a))) :pattern ((%s a b))))", f, f, f))
		e.assume(fmt.Sprintf("(forall ((a Str) (b Str)) (! (or (%s a b) (%s b a) (= a b)) :pattern ((%s a b))))", f, f, f))
	}
	return app(f, a, b)
}

// wrapUnsigned: the function under contract opts into wrap-around semantics for unsigned arithmetic (`mode wrap`).
func (e *Enc) wrapUnsigned() bool { return e.con != nil && strings.Contains(e.con.Mode, "wrap") }

// numLess: < on two numeric values of the same Go type (integers; bit-vectors in mode bitvector).
func (e *Enc) numLess(a, b *Val) string {
	if strings.HasPrefix(leafSortOf(a.typ), "(_ BitVec") {
		if isUnsigned(a.typ) {
			return app("bvult", a.c[0], b.c[0])
		}
		return app("bvslt", a.c[0], b.c[0])
	}
	return app("<", a.c[0], b.c[0])
}

func leafSortOf(t types.Type) string {
	ls := leaves(t)
	if len(ls) == 1 {
		return ls[0].sort
	}
	return ""
}

func isUnsigned(t types.Type) bool {
	b, ok := t.Underlying().(*types.Basic)
	return ok && b.Info()&types.IsUnsigned != 0
}

func constIntOf(v ssa.Value) (int64, bool) {
	c, ok := v.(*ssa.Const)
	if !ok || c.Value == nil {
		return 0, false
	}
	return c.Int64(), true
}

func (e *Enc) constBitOp(in *ssa.BinOp, x, y *Val) (string, bool) {
	if !isUnsigned(in.X.Type()) {
		return "", false
	}
	k, ok := constIntOf(in.Y)
	if !ok || k < 0 {
		return "", false
	}
	pow := func(n int64) string { return new(big.Int).Lsh(big.NewInt(1), uint(n)).String() }
	switch in.Op {
	case token.SHR:
		if k > 63 {
			return "0", true
		}
		return app("div", x.c[0], pow(k)), true
	case token.AND:
		// mask 2^n - 1
		for n := int64(1); n <= 63; n++ {
			if k == (int64(1)<<uint(n))-1 {
				return app("mod", x.c[0], pow(n)), true
			}
		}
	case token.SHL:
		if k > 63 {
			return "", false
		}
		lo, hi := intRange(in.Type().Underlying().(*types.Basic))
		_ = lo
		return app("mod", app("*", x.c[0], pow(k)), app("+", hi, "1")), true
	}
	return "", false
}
