package main

import (
	"go/types"
	"fmt"
	"os"
	"sort"
	"strings"

	"golang.org/x/tools/go/ssa"
	"golang.org/x/tools/go/ssa/ssautil"
)

const modRoot = "github.com/PapaCharlie/go-restli"

var modPrefixes = []string{modRoot + "/v2/", modRoot + "/"}

// fname is the module-independent name of a function: the same function in /repo and /repo/v2 gets the same name.
func fname(fn *ssa.Function) string {
	if o := fn.Origin(); o != nil {
		fn = o
	}
	s := fn.String()
	for _, p := range modPrefixes {
		s = strings.ReplaceAll(s, p, "")
	}
	return s
}

func allFunctions(prog *ssa.Program, spkgs []*ssa.Package) []*ssa.Function {
	var out []*ssa.Function
	seen := map[*ssa.Function]bool{}
	var walk func(f *ssa.Function)
	walk = func(f *ssa.Function) {
		if f == nil || seen[f] {
			return
		}
		seen[f] = true
		out = append(out, f)
		for _, a := range f.AnonFuncs {
			walk(a)
		}
	}
	inScope := map[*ssa.Package]bool{}
	for _, sp := range spkgs {
		if sp != nil {
			inScope[sp] = true
		}
	}
	for f := range ssautil.AllFunctions(prog) {
		if f.Pkg != nil && inScope[f.Pkg] && f.Parent() == nil {
			if f.Origin() != nil && f.Origin() != f {
				continue // instantiation: the generic origin is what we verify
			}
			walk(f)
		}
	}
	// declared methods of every named type of the packages in scope (generic types included: their origins are not
	// always among the reachable functions)
	for sp := range inScope {
		for _, mem := range sp.Members {
			tm, ok := mem.(*ssa.Type)
			if !ok {
				continue
			}
			named, ok := tm.Type().(*types.Named)
			if !ok {
				continue
			}
			for i := 0; i < named.NumMethods(); i++ {
				if f := prog.FuncValue(named.Method(i)); f != nil && f.Blocks != nil {
					walk(f)
				}
			}
		}
	}
	sort.Slice(out, func(i, j int) bool {
		if out[i].Pos() != out[j].Pos() {
			return out[i].Pos() < out[j].Pos()
		}
		return out[i].String() < out[j].String()
	})
	return out
}

func usage() {
	fmt.Fprintln(os.Stderr, `usage:
  govc check    -prop Cxx [-tier quick|thorough] [-update-baseline] [-v]
  govc sweep    -dir /repo/v2 [-func substr] pkgs...      (zero-annotation safety sweep, diagnostic only)
  govc replay   -file <replay.json>
  govc selftest [-prop Cxx]`)
	os.Exit(2)
}

func main() {
	if len(os.Args) < 2 {
		usage()
	}
	switch os.Args[1] {
	case "check":
		os.Exit(cmdCheck(os.Args[2:]))
	case "funcs":
		// govc funcs <moduledir> <substr> pkgs... : list the names functions are known by (for writing contracts)
		m, err := loadModule("x", os.Args[2], os.Args[4:], "")
		if err != nil {
			fmt.Fprintln(os.Stderr, err)
			os.Exit(2)
		}
		for n := range m.Funcs {
			if strings.Contains(n, os.Args[3]) {
				fmt.Println(n)
			}
		}
	case "sweep":
		os.Exit(cmdSweep(os.Args[2:]))
	case "replay":
		os.Exit(cmdReplay(os.Args[2:]))
	case "selftest":
		os.Exit(cmdSelftest(os.Args[2:]))
	default:
		usage()
	}
}

func dedupe(xs []string) []string {
	m := map[string]bool{}
	var out []string
	for _, x := range xs {
		if !m[x] {
			m[x] = true
			out = append(out, x)
		}
	}
	return out
}
