#!/bin/bash
# Runs every claimed check's quick command on the current tree (16 cores: 3 checks at a time) and validates the evidence.
cd /verif
if [ -n "$(git -C /repo status --short | grep -v '^??')" ]; then echo "WARNING: /repo has uncommitted changes"; fi
ids=$(python3 -c "import json;print(' '.join(c['property_id'] for c in json.load(open('/verif/MANIFEST.json'))['checks']))")
rc=0
printf '%s\n' $ids | xargs -P 3 -I{} sh -c './check {} --tier quick > /tmp/runall-{}.log 2>&1; echo "{} exit=$? $(grep "^property" /tmp/runall-{}.log | cut -c1-140)"'
for p in $ids; do grep -q "^VIOLATION" /tmp/runall-$p.log && { echo "ALARM in $p"; rc=1; }; done
python3-vt - <<'PY' || rc=1
import json,jsonschema,sys
m=json.load(open('/verif/MANIFEST.json')); jsonschema.validate(m,json.load(open('/root/.vp/MANIFEST.schema.json')))
sch=json.load(open('/root/.vp/EVIDENCE.schema.json')); bad=0
for c in m['checks']:
    e=json.load(open(c['evidence_file'])); jsonschema.validate(e,sch)
    cov=e['coverage']
    if cov['obligations']!=cov['discharged'] or e.get('violations'):
        print("EVIDENCE MISMATCH", c['property_id'], cov['obligations'], cov['discharged'], e.get('violations')); bad=1
print("manifest+evidence valid" if not bad else "evidence problems"); sys.exit(bad)
PY
exit $rc
