#!/bin/bash
# Runs the repository's pinned test suite (guard off) and compares with /root/.vp/BASELINE.json stable_pass.
export GOFLAGS=-mod=mod GOPROXY=off GOSUMDB=off GOTOOLCHAIN=local
out=$(mktemp)
for m in . ./v2; do (cd /repo/$m && go test -mod=mod -json -vet=off -count=1 -timeout 25m ./... 2>/dev/null); done > $out
python3 - "$out" <<'PY'
import json,sys
passed=set()
for l in open(sys.argv[1]):
    try: e=json.loads(l)
    except: continue
    if e.get('Action')=='pass' and e.get('Test'): passed.add(e['Package']+'::'+e['Test'])
base=json.load(open('/root/.vp/BASELINE.json'))['stable_pass']
missing=[t for t in base if t not in passed]
print("baseline tests: %d, passing now: %d, missing: %d" % (len(base), len(base)-len(missing), len(missing)))
for t in missing[:20]: print("  MISSING", t)
sys.exit(1 if missing else 0)
PY
rc=$?
rm -f $out
exit $rc
