#!/usr/bin/env python3
"""Runs every seeded change against the checks that could see it (scratch copy of /repo, selftest mode) and writes
/verif/seeded/<id>/meta.json: which property it breaks, what it needs to manifest, what was run, which checks catch it."""
import json, os, re, subprocess, sys, tempfile, shutil, glob
REL = {'C01':['C01','C03'],'C03':['C03','C01','C06','C15'],'C04':['C04','C05','C06'],'C05':['C05','C04'],'C06':['C06','C07'],'C07':['C07','C06'],
       'C08':['C08','C05'],'C09':['C09','C16','C07'],'C10':['C10','C16'],'C11':['C11','C07'],'C13':['C13'],'C14':['C14','C03'],'C15':['C15'],
       'C16':['C16','C09','C10'],'C19':['C19'],'C20':['C20']}
env = dict(os.environ, GOFLAGS='-mod=mod', GOPROXY='off', GOSUMDB='off', GOTOOLCHAIN='local', GOVC_SELFTEST='1')
only = sys.argv[1:]
def one(d):
    sid = os.path.basename(d)
    prop = sid.split('-')[0]
    readme = open(d+'/README.md').read()
    m = re.search(r'##[^\n]*(?:[Ww]hat it needs|[Tt]rigger|[Nn]eeds)[^\n]*\n(.*?)(?=\n## |\Z)', readme, re.S)
    needs = ' '.join(m.group(1).split()) if m else ''
    title = readme.splitlines()[0].lstrip('# ').strip()
    confirm = ''
    if os.path.exists(d+'/confirm.log'):
        for l in open(d+'/confirm.log'):
            if l.startswith('RESULT'): confirm = l.strip()
    tmp = tempfile.mkdtemp(prefix='govc-seed.', dir='/tmp')
    subprocess.run(['rsync','-a','--exclude','.git','/repo/',tmp+'/'], check=True)
    ap = subprocess.run(['patch','-p1','-s','--no-backup-if-mismatch','-i',d+'/patch.diff'], cwd=tmp, capture_output=True, text=True)
    caught, detail, ran = [], {}, []
    if ap.returncode != 0:
        detail['apply'] = 'patch does not apply to the current tree: ' + ap.stdout[-300:]
    else:
        for p in REL.get(prop, [prop]):
            if not os.path.exists('/verif/props/%s.json' % p): continue
            r = subprocess.run(['/verif/bin/govc','check','-prop',p], env=dict(env, GOVC_REPO=tmp), capture_output=True, text=True)
            ran.append('GOVC_REPO=<scratch copy with patch> govc check -prop %s -> exit %d' % (p, r.returncode))
            v = [l for l in r.stdout.splitlines() if l.startswith('SELFTEST-VIOLATION')]
            if r.returncode == 1 and v:
                caught.append(p); detail[p] = [re.sub(r'^SELFTEST-VIOLATION property=\S+ ', '', l)[:300] for l in v[:4]]
    shutil.rmtree(tmp, ignore_errors=True)
    meta = {'seed': sid, 'breaks_property': prop, 'title': title, 'needs_to_manifest': needs,
            'confirmed': confirm + '  (tools/confirm_seed.sh: patch applied in a scratch worktree; demo_test.go passes on the unchanged tree and fails on the changed one; pinned suite still passes)',
            'ran': ran, 'caught_by': caught, 'failing_obligations': detail,
            'status': 'caught' if caught else 'missed'}
    json.dump(meta, open(d+'/meta.json','w'), indent=1)
    print(sid, 'caught by', caught if caught else 'NOTHING', flush=True)

if __name__ == '__main__':
    from multiprocessing import Pool
    ds=[d for d in sorted(glob.glob('/verif/seeded/C*')) if not only or os.path.basename(d) in only]
    with Pool(4) as pool:
        pool.map(one, ds)
