#!/usr/bin/env python3
# records the outcome of the per-property selftest corpus (stdin: output of tools/selftest.sh PROP) in evidence/PROP.json
import json, sys
prop = sys.argv[1]
lines = [l.rstrip() for l in sys.stdin if l.strip()]
ev = '/verif/evidence/%s.json' % prop
try:
    d = json.load(open(ev))
    d.setdefault('coverage', {})['selftest'] = {
        'what': 'deliberate property-breaking changes (must be reported) and behaviour-preserving edits (must stay quiet), each applied to a scratch copy of the tree under test; exercises the machinery, never decides the property',
        'must_fail_caught': sum(1 for l in lines if l.startswith('ok   fail')),
        'benign_quiet': sum(1 for l in lines if l.startswith('ok   pass')),
        'skipped_patch_does_not_apply': sum(1 for l in lines if l.startswith('SKIP')),
        'problems': [l for l in lines if l.startswith('SELFTEST')],
        'summary': [l for l in lines if l.startswith('selftest:')],
    }
    json.dump(d, open(ev, 'w'), indent=1)
except Exception as e:
    print('selftest evidence not recorded:', e)
