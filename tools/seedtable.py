#!/usr/bin/env python3
"""Prints the DESIGN.md 12.4 table (markdown) from /verif/seeded/*/meta.json and seeded/FIRST_MISSES.txt."""
import json, glob, os, re
miss = set(l.strip() for l in open('/verif/seeded/FIRST_MISSES.txt') if l.strip() and not l.startswith('#'))
def key(d):
    b = os.path.basename(d); p, k = b.split('-'); return (p, int(k))
print("| seed | change | caught by | first failing obligation |")
print("|------|--------|-----------|--------------------------|")
for d in sorted(glob.glob('/verif/seeded/C*-*'), key=key):
    sid = os.path.basename(d)
    m = json.load(open(d + '/meta.json'))
    title = re.sub(r'\s+', ' ', m.get('title', ''))[:90].replace('|', '/')
    cb = ', '.join(m.get('caught_by', [])) or 'NOTHING'
    if sid in miss: cb += ' (after strengthening)'
    first = ''
    for p in m.get('caught_by', []):
        fo = m.get('failing_obligations', {}).get(p) or []
        if fo:
            first = re.sub(r'^obligation=(v2|root|corpus)/', '', fo[0]); first = re.sub(r' reason=.*$', '', first)[:100]
            break
    print("| %s | %s | %s | `%s` |" % (sid, title, cb, first.replace('|', '/')))
