#!/bin/bash
# usage: confirm_seed.sh <seed-id>...   Confirms seeded changes in a scratch worktree of /repo under /tmp (removed afterwards):
# patch applies, both modules build, the pinned test suite still passes, the demonstration behaves differently with / without it.
export GOFLAGS=-mod=mod GOPROXY=off GOSUMDB=off GOTOOLCHAIN=local
WT=/tmp/cs-$$
git -C /repo worktree add -q --detach $WT HEAD || exit 2
trap 'git -C /repo worktree remove --force $WT; git -C /repo worktree prune' EXIT
for id in "$@"; do
  S=/verif/seeded/$id; L=$S/confirm.log; : > $L
  git -C $WT reset -q --hard HEAD; git -C $WT clean -fdq
  line=$(grep -E "go test .*-run '?Test[A-Za-z0-9]*Seed" $S/README.md | head -1)
  run=$(echo "$line" | sed -E "s/.*-run '?([A-Za-z0-9_]+)'?.*/\1/")
  pkg=$(echo "$line" | grep -oE '\./[A-Za-z0-9_/]+' | tail -1)
  tags=""; grep -q "seeddemo" $S/demo_test.go && tags="-tags seeddemo"
  echo "seed=$id run=$run pkg=$pkg tags=$tags" >> $L
  demo() { cp $S/demo_test.go $WT/v2/$pkg/zz_seed_demo_test.go; (cd $WT/v2 && timeout 600 go test $tags -vet=off -count=1 -run "$run" $pkg > /tmp/cs-demo.$$ 2>&1); rc=$?; tail -15 /tmp/cs-demo.$$ >> $L; rm -f $WT/v2/$pkg/zz_seed_demo_test.go /tmp/cs-demo.$$; return $rc; }
  echo "--- demo on unchanged tree" >> $L; demo; d0=$?
  if git -C $WT apply $S/patch.diff 2>>$L || git -C $WT apply --3way $S/patch.diff 2>>$L; then ap=ok; else ap=FAILED; fi
  echo "--- build" >> $L
  (cd $WT && go test -vet=off -count=1 -run '^$' ./... >/dev/null && cd v2 && go test -vet=off -count=1 -run '^$' ./... > /dev/null) >> $L 2>&1; b=$?
  echo "--- demo on changed tree" >> $L; demo; d1=$?
  echo "--- suite" >> $L
  out=$(mktemp); for m in . ./v2; do (cd $WT/$m && go test -mod=mod -json -vet=off -count=1 -timeout 25m ./... 2>/dev/null); done > $out
  suite=$(python3 - "$out" <<'PY'
import json,sys
passed=set()
for l in open(sys.argv[1]):
    try: e=json.loads(l)
    except: continue
    if e.get('Action')=='pass' and e.get('Test'): passed.add(e['Package']+'::'+e['Test'])
base=json.load(open('/root/.vp/BASELINE.json'))['stable_pass']
missing=[t for t in base if t not in passed]
print("%d/%d" % (len(base)-len(missing), len(base)))
PY
)
  rm -f $out
  echo "RESULT seed=$id apply=$ap build_rc=$b demo_unchanged_rc=$d0 demo_changed_rc=$d1 suite=$suite" | tee -a $L
done
