#!/bin/bash
# usage: mkmut.sh <out.diff> <file> <old> <new> : make a patch replacing the first occurrence of <old> by <new> in /repo/<file> (and its module twin if identical text exists)
out=$1; f=$2; old=$3; new=$4
python3 - "$f" "$old" "$new" <<'PY'
import sys
f,old,new=sys.argv[1:4]
old=old.encode().decode('unicode_escape'); new=new.encode().decode('unicode_escape')
s=open('/repo/'+f).read()
assert old in s, "old text not found"
open('/repo/'+f,'w').write(s.replace(old,new,1))
PY
[ $? -eq 0 ] || exit 1
git -C /repo diff > $out; git -C /repo checkout -- .
