#!/bin/bash
# usage: trymut.sh <patch file> <prop> [<prop>...] : apply a seeded change to /repo, run the named checks, undo it.
# /repo must be clean (all hook changes committed) before calling.
P=$1; shift
if [ -n "$(git -C /repo status --porcelain)" ]; then echo "REPO DIRTY - commit hooks first"; exit 2; fi
git -C /repo apply "$P" 2>/dev/null || git -C /repo apply --3way "$P" 2>&1 | tail -2
if [ -z "$(git -C /repo status --porcelain)" ]; then echo "PATCH DID NOT APPLY"; exit 2; fi
for p in "$@"; do
  out=$(/verif/bin/govc check -prop $p 2>&1); rc=$?
  echo "== $p exit=$rc"; echo "$out" | grep -E "^VIOLATION|FAIL|anchor|missing" | head -8
done
git -C /repo reset -q --hard HEAD; git -C /repo clean -fdq
git -C /verif checkout -- evidence 2>/dev/null
