#!/bin/bash
# mkwt.sh <name>: scratch worktree of /repo at HEAD under /tmp/wt-<name>, with the verification contract files
# removed and that removal committed, so that `git diff HEAD` in the worktree shows only the seeded change.
set -e
d=/tmp/wt-$1
git -C /repo worktree remove --force $d 2>/dev/null || true
rm -rf $d
git -C /repo worktree add -q --detach $d HEAD
cd $d
git rm -q --ignore-unmatch $(git ls-files | grep verif_contracts || true) >/dev/null 2>&1 || true
git -c user.name=scratch -c user.email=s@x commit -qm "scratch base" || true
echo $d
