#!/bin/bash
# usage: selftest.sh [PROP]   Runs the selftest corpus against scratch copies of /repo (never /repo itself):
#   must-fail: /verif/selftest/mustfail/*.diff and every /verif/seeded/*/patch.diff whose meta.json lists a catching check
#   benign:    /verif/selftest/benign/*.diff (semantics-preserving edits of code under contract) must raise no alarm
# Each patch carries "# props: Cxx,Cyy" (checks to run) in its header (seeded: taken from meta.json "caught_by").
only=$1
export GOFLAGS=-mod=mod GOPROXY=off GOSUMDB=off GOTOOLCHAIN=local
bad=0; n=0
run() { # file expect props
  f=$1; expect=$2; props=$3
  d=$(mktemp -d /tmp/govc-selftest.XXXXXX)
  rsync -a --exclude .git /repo/ $d/
  if ! (cd $d && patch -p1 -s --no-backup-if-mismatch < $f >/dev/null 2>&1); then echo "SKIP $(basename $(dirname $f))/$(basename $f): does not apply to the current tree"; rm -rf $d; return; fi
  for p in ${props//,/ }; do
    [ -n "$only" ] && [ "$only" != "$p" ] && continue
    out=$(GOVC_REPO=$d GOVC_SELFTEST=1 /verif/bin/govc check -prop $p 2>&1); rc=$?
    n=$((n+1))
    if [ "$expect" = fail ] && [ $rc -ne 1 ]; then echo "SELFTEST-MISS $p $f (exit $rc)"; bad=$((bad+1));
    elif [ "$expect" = pass ] && [ $rc -ne 0 ]; then echo "SELFTEST-FALSE-ALARM $p $f (exit $rc)"; echo "$out" | grep SELFTEST-VIOLATION | head -3; bad=$((bad+1));
    else echo "ok   $expect $p $(basename $(dirname $f))/$(basename $f)"; fi
  done
  rm -rf $d
}
for f in /verif/selftest/mustfail/*.diff; do props=$(sed -n 's/^# props: //p' $f | head -1); run $f fail "$props"; done
for m in /verif/seeded/*/meta.json; do
  props=$(python3 -c "import json,sys; print(','.join(json.load(open('$m')).get('caught_by',[])))")
  [ -n "$props" ] && run $(dirname $m)/patch.diff fail "$props"
done
for f in /verif/selftest/benign/*.diff; do [ -e $f ] || continue; props=$(sed -n 's/^# props: //p' $f | head -1); run $f pass "$props"; done
echo "selftest: $n runs, $bad problems"
[ $bad -eq 0 ]
