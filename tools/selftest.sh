#!/bin/bash
# usage: selftest.sh [PROP]   Runs the selftest corpus against scratch copies of /repo (never /repo itself):
#   must-fail: /verif/selftest/mustfail/*.diff and every /verif/seeded/*/patch.diff whose meta.json lists a catching check
#   benign:    /verif/selftest/benign/*.diff (semantics-preserving edits of code under contract) must raise no alarm
# Each patch carries "# props: Cxx,Cyy" (checks to run) in its header (seeded: taken from meta.json "caught_by").
# Scratch copies live under ${TMPDIR:-/tmp} and are removed after each entry. SELFTEST_JOBS entries run in parallel (default 4).
only=$1
export GOFLAGS=-mod=mod GOPROXY=off GOSUMDB=off GOTOOLCHAIN=local
if [ "${2:-}" = --one ]; then # internal: selftest.sh ONLY --one file expect props
  f=$3; expect=$4; props=$5
  d=$(mktemp -d "${TMPDIR:-/tmp}/govc-selftest.XXXXXX")
  rsync -a --exclude .git /repo/ $d/
  if ! (cd $d && patch -p1 -s --no-backup-if-mismatch < $f >/dev/null 2>&1); then echo "SKIP $(basename $(dirname $f))/$(basename $f): does not apply to the current tree"; rm -rf $d; exit 0; fi
  for p in ${props//,/ }; do
    [ "$only" != - ] && [ "$only" != "$p" ] && continue
    out=$(GOVC_REPO=$d GOVC_SELFTEST=1 /verif/bin/govc check -prop $p 2>&1); rc=$?
    if [ "$expect" = fail ] && [ $rc -ne 1 ]; then echo "SELFTEST-MISS $p $f (exit $rc)";
    elif [ "$expect" = pass ] && [ $rc -ne 0 ]; then echo "SELFTEST-FALSE-ALARM $p $f (exit $rc)"; echo "$out" | grep SELFTEST-VIOLATION | head -3 | sed 's/^SELFTEST-VIOLATION/  reported:/';
    else echo "ok   $expect $p $(basename $(dirname $f))/$(basename $f)"; fi
  done
  rm -rf $d
  exit 0
fi
jobs=$(mktemp "${TMPDIR:-/tmp}/govc-selftest-jobs.XXXXXX")
add() { # file expect props
  [ -z "$3" ] && return
  if [ -n "$only" ]; then case ",$3," in *",$only,"*) ;; *) return;; esac; fi
  echo "$1 $2 $3" >> $jobs
}
for f in /verif/selftest/mustfail/*.diff; do add $f fail "$(sed -n 's/^# props: //p' $f | head -1)"; done
for m in /verif/seeded/*/meta.json; do
  add $(dirname $m)/patch.diff fail "$(python3 -c "import json,sys; print(','.join(json.load(open('$m')).get('caught_by',[])))")"
done
for f in /verif/selftest/benign/*.diff; do [ -e $f ] || continue; add $f pass "$(sed -n 's/^# props: //p' $f | head -1)"; done
res=$(xargs -a $jobs -P "${SELFTEST_JOBS:-4}" -L1 /verif/tools/selftest.sh "${only:--}" --one 2>&1)
rm -f $jobs
echo "$res"
n=$(echo "$res" | grep -cE "^ok|^SELFTEST-(MISS|FALSE)")
bad=$(echo "$res" | grep -cE "^SELFTEST-(MISS|FALSE)")
echo "selftest: $n runs, $bad problems"
[ "$bad" -eq 0 ]
