#!/usr/bin/env python3
"""Regenerates /verif/MANIFEST.json from /verif/props/*.json (+ manifest_meta.json for the per-property texts)."""
import json, glob, os, subprocess
meta = json.load(open('/verif/manifest_meta.json'))
hooks = subprocess.run("git -C /repo log --format=%H --grep='^verif hooks'", shell=True, capture_output=True, text=True).stdout.split()
checks = []
claimed = []
for f in sorted(glob.glob('/verif/props/C*.json')):
    pid = os.path.basename(f)[:-5]
    m = meta['checks'].get(pid)
    if not m:
        continue
    claimed.append(pid)
    checks.append({
        "property_id": pid,
        "quick_cmd": "./check %s --tier quick" % pid,
        "thorough_cmd": "./check %s --tier thorough" % pid,
        "evidence_file": "/verif/evidence/%s.json" % pid,
        "replay_cmd_template": "./check %s --replay {path}" % pid,
        "engine": "govc",
        "level_claimed": {"category": "proof", "text": m["level_text"], "design_ref": m.get("design_ref", "DESIGN.md section 5, " + pid)},
        "level_note": m["level_note"],
        "technique": m.get("technique", "contract-based deductive verification: //@ contracts on the real functions, VCs generated from go/ssa, discharged by z3/cvc5"),
    })
na = [{"property_id": k, "reason": v} for k, v in sorted(meta['not_applicable'].items()) if k not in claimed]
man = {
    "version": 1,
    "setup_cmd": "cd /verif/govc && GOFLAGS=-mod=mod GOPROXY=off GOSUMDB=off GOTOOLCHAIN=local go build -o /verif/bin/govc .",
    "hooks": {
        "guard": "verif",
        "enable": "go build -tags verif: the hooks are comment-only contract files verif_contracts.go (//go:build verif) beside the code; govc loads /repo with -tags verif",
        "baseline_off_cmd": "for m in $(cat /w/out/gomods.txt); do MF=$(cd /repo/$m && . /w/out/goenv.sh && gomodflag); (cd /repo/$m && go test $MF -json -vet=off -count=1 -timeout 25m ./...); done",
        "source_commits": hooks,
        "add_only": True,
    },
    "engines": [{"name": "govc", "path": "/verif/govc", "serves_properties": claimed,
                 "kind_free_text": "own verification-condition generator for Go: go/packages + go/ssa (x/tools v0.29.0) -> SMT-LIB 2 per obligation; contracts are //@ comments in tag-guarded files in /repo; back ends cvc5 1.0.3, z3 5.1.0, z3 4.8.12"}],
    "checks": checks,
    "not_applicable": na,
    "notes": meta.get("notes", ""),
}
json.dump(man, open('/verif/MANIFEST.json', 'w'), indent=1)
print("claimed:", claimed, "not_applicable:", [x['property_id'] for x in na])
