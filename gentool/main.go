// gentool runs the REAL generator of /repo/v2 (cmd.ReadManifest + cmd.GenerateCode) on a corpus manifest.
// usage: gentool <manifest.json> <outdir>
package main

import (
	"fmt"
	"os"

	"github.com/PapaCharlie/go-restli/v2/cmd"
)

func main() {
	data, err := os.ReadFile(os.Args[1])
	if err != nil {
		fmt.Fprintln(os.Stderr, err)
		os.Exit(2)
	}
	m, err := cmd.ReadManifest(data)
	if err != nil {
		fmt.Fprintln(os.Stderr, "manifest:", err)
		os.Exit(2)
	}
	if err := cmd.GenerateCode(os.Args[2], []*cmd.GoRestliManifest{m}, false); err != nil {
		fmt.Fprintln(os.Stderr, "generate:", err)
		os.Exit(1)
	}
}
